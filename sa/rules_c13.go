package main

import (
	"fmt"
	"go/token"
	"go/types"
	"sort"
	"strings"

	"golang.org/x/tools/go/ssa"
)

func init() {
	register(&property{
		ID: "C13",
		Explanation: "(a) no explicit panic is reachable from the text parsers (ParseOPB, ParseCNF, ParseWCNF, explain.ParseCNF) on grounds other than malformed input: every constructor precondition is established at its call sites, every other panic is a listed malformed-input panic; " +
			"(b) the OPB constraint-line parser accepts exactly the relations >= and = and hands them to GtEq and Eq respectively; " +
			"(c) the hard/soft predicate that numbers relaxation literals in parseWCNFClause and the one that counts them in ParseWCNF are the same predicate.",
		NotDecided: "that the parsed problem has the models (and costs) of the text: tokenisation, header handling, normalisation arithmetic; nothing is executed.",
		Rules:      []ruleFn{ruleR13_1, ruleR13_2, ruleR13_6, ruleR13_7, ruleR2_3, ruleR2_4, ruleR2_5, ruleR2_6, ruleR2_7, ruleR13_8, ruleR13_9, ruleR4_4, ruleR18_9, ruleR13_10, ruleR13_11, ruleR4_7, ruleR13_12, ruleR13_13, ruleR13_14},
		Fixtures:   []func(*World) []string{fixtureE8, fixtureR13},
	})
}

var c13Entries = []entryRef{{"solver", "ParseOPB"}, {"solver", "ParseCNF"}, {"maxsat", "ParseWCNF"}, {"explain", "ParseCNF"}}

// c13Contract is the frozen table of panics that only malformed input can trigger, or whose guard the callers keep
// false by construction in a way the bound reasoning cannot see. Anything not listed is reported.
var c13Contract = []contractPanic{
	{"(*solver.Problem).parseSlice", "null unit clause", "literal 0 in a clause: 0 is the clause terminator, a WCNF line with an inner 0 is malformed input"},
	{"(*solver.Problem).parseSlice", "null literal in clause %v", "literal 0 in a clause: 0 is the clause terminator, a WCNF line with an inner 0 is malformed input"},
	{"solver.GtEq", "not as many lits as weights", "length mismatch: parseTerms appends one weight and one literal per term, the two slices have equal length"},
	{"(*solver.Problem).SetCostFunc", "length of lits and of weights don't match", "length mismatch: ParseWCNF counts the relaxation literals and the soft weights together (one increment, one append, under one predicate: R13.6)"},
}

func ruleR13_1(w *World, r *Report) {
	r.Rule("R13.1", "every explicit panic reachable from the text parsers is either a precondition that each call site establishes (1 <= card for NewPBClause ...) or a listed malformed-input panic", 7)
	roots := w.resolveEntries(r, "R13.1", c13Entries)
	runPreconditions(w, r, "R13.1", roots, true, c13Contract)
}

// ---------- R13.2: operator table of the OPB constraint line ----------

func isPBConstrResult(fn *ssa.Function) bool {
	res := fn.Signature.Results()
	if res.Len() != 1 {
		return false
	}
	t := res.At(0).Type()
	if s, ok := t.Underlying().(*types.Slice); ok {
		t = s.Elem()
	}
	n, ok := t.(*types.Named)
	return ok && n.Obj().Name() == "PBConstr"
}

// strCmp is a comparison of a string value with a constant.
type strCmp struct {
	V  ssa.Value
	C  string
	Eq bool
}

func asStrCmp(cond ssa.Value) (strCmp, bool, bool) { // cmp, polarity flipped by NOTs, ok
	flip := false
	for {
		u, ok := cond.(*ssa.UnOp)
		if !ok || u.Op != token.NOT {
			break
		}
		cond, flip = u.X, !flip
	}
	b, ok := cond.(*ssa.BinOp)
	if !ok || (b.Op != token.EQL && b.Op != token.NEQ) {
		return strCmp{}, false, false
	}
	if c, ok := constString(b.Y); ok {
		if _, isC := b.X.(*ssa.Const); !isC {
			return strCmp{V: b.X, C: c, Eq: b.Op == token.EQL}, flip, true
		}
	}
	if c, ok := constString(b.X); ok {
		if _, isC := b.Y.(*ssa.Const); !isC {
			return strCmp{V: b.Y, C: c, Eq: b.Op == token.EQL}, flip, true
		}
	}
	return strCmp{}, false, false
}

const otherToken = "<any other token>"

// tokenStates computes, for every block, the set of values the token v can have on entry (constants it is compared
// with, and "any other").
func tokenStates(fn *ssa.Function, v ssa.Value) (map[*ssa.BasicBlock]map[string]bool, []string) {
	uni := map[string]bool{otherToken: true}
	for _, b := range fn.Blocks {
		if iff, ok := b.Instrs[len(b.Instrs)-1].(*ssa.If); ok {
			if sc, _, ok := asStrCmp(iff.Cond); ok && sc.V == v {
				uni[sc.C] = true
			}
		}
	}
	var all []string
	for c := range uni {
		all = append(all, c)
	}
	sort.Strings(all)
	in := map[*ssa.BasicBlock]map[string]bool{}
	if len(fn.Blocks) == 0 {
		return in, all
	}
	entry := map[string]bool{}
	for c := range uni {
		entry[c] = true
	}
	in[fn.Blocks[0]] = entry
	work := []*ssa.BasicBlock{fn.Blocks[0]}
	for len(work) > 0 {
		b := work[len(work)-1]
		work = work[:len(work)-1]
		st := in[b]
		outs := make([]map[string]bool, len(b.Succs))
		for i := range outs {
			outs[i] = st
		}
		if iff, ok := b.Instrs[len(b.Instrs)-1].(*ssa.If); ok && len(b.Succs) == 2 && b.Succs[0] != b.Succs[1] {
			if sc, flip, ok := asStrCmp(iff.Cond); ok && sc.V == v {
				only, without := map[string]bool{}, map[string]bool{}
				for c := range st {
					if c == sc.C {
						only[c] = true
					} else {
						without[c] = true
					}
				}
				t, f := only, without // v == C
				if !sc.Eq {
					t, f = f, t
				}
				if flip {
					t, f = f, t
				}
				outs[0], outs[1] = t, f
			}
		}
		for i, s := range b.Succs {
			cur := in[s]
			if cur == nil {
				cur = map[string]bool{}
				in[s] = cur
			}
			grew := false
			for c := range outs[i] {
				if !cur[c] {
					cur[c] = true
					grew = true
				}
			}
			if grew {
				work = append(work, s)
			}
		}
	}
	return in, all
}

func setString(m map[string]bool) string {
	var s []string
	for k := range m {
		s = append(s, fmt.Sprintf("%q", k))
	}
	sort.Strings(s)
	return "{" + strings.Join(s, ", ") + "}"
}

func sameSet(m map[string]bool, want ...string) bool {
	if len(m) != len(want) {
		return false
	}
	for _, x := range want {
		if !m[x] {
			return false
		}
	}
	return true
}

// opTableVerdict analyses one dispatcher function. It returns one line per check (accepted set, GtEq dispatch, Eq
// dispatch).
type opCheck struct {
	Name   string
	OK     bool
	Unk    bool
	Pos    string
	Detail string
}

func opTableVerdict(w *World, fn, geq, eq *ssa.Function, isNormaliser func(*ssa.Function) bool) []opCheck {
	// the operator token: the string value compared with constants whose tests constrain the dispatch calls
	cands := map[ssa.Value]bool{}
	var order []ssa.Value
	for _, b := range fn.Blocks {
		if iff, ok := b.Instrs[len(b.Instrs)-1].(*ssa.If); ok {
			if sc, _, ok := asStrCmp(iff.Cond); ok && !cands[sc.V] {
				cands[sc.V] = true
				order = append(order, sc.V)
			}
		}
	}
	type disp struct {
		blk    *ssa.BasicBlock // where the normaliser is chosen: the block of its call, or of the selection of it as a value
		pos    string
		callee *ssa.Function
	}
	var calls []disp
	allInstrs(fn, func(ins ssa.Instruction) {
		if c, ok := ins.(*ssa.Call); ok {
			if t := c.Call.StaticCallee(); t != nil && isNormaliser(w.unwrap(t)) {
				calls = append(calls, disp{c.Block(), w.InstrPos(c), w.unwrap(t)})
			}
		}
	})
	// the normaliser may be selected as a value and called later (`normalize = Eq` in one arm, a function literal
	// around GtEq in the other, `normalize(lits, weights, rhs)` below): the selection is the dispatch
	selected := func(v ssa.Value) *ssa.Function {
		var lit *ssa.Function
		switch x := v.(type) {
		case *ssa.Function:
			if isNormaliser(w.unwrap(x)) {
				return w.unwrap(x)
			}
			if x.Parent() != nil {
				lit = x // a function literal that captures nothing
			}
		case *ssa.MakeClosure:
			lit, _ = x.Fn.(*ssa.Function)
		}
		if lit == nil {
			return nil
		}
		var only *ssa.Function
		for _, ci := range callsIn(lit) {
			if t := ci.Common().StaticCallee(); t != nil && isNormaliser(w.unwrap(t)) {
				if only != nil && only != w.unwrap(t) {
					return nil
				}
				only = w.unwrap(t)
			}
		}
		return only
	}
	calledHere := func(v ssa.Value) bool {
		for _, ref := range *v.Referrers() {
			if c, ok := ref.(*ssa.Call); ok && c.Call.Value == v {
				return true
			}
		}
		return false
	}
	allInstrs(fn, func(ins ssa.Instruction) {
		phi, ok := ins.(*ssa.Phi)
		if !ok || !calledHere(phi) {
			return
		}
		if _, isSig := phi.Type().Underlying().(*types.Signature); !isSig {
			return
		}
		for i, e := range phi.Edges {
			if t := selected(e); t != nil {
				pb := phi.Block().Preds[i]
				calls = append(calls, disp{pb, w.InstrPos(pb.Instrs[len(pb.Instrs)-1]), t})
			}
		}
	})
	unk := func(msg string) []opCheck {
		return []opCheck{{Name: "accepted relations", Unk: true, Pos: w.Pos(fn.Pos()), Detail: msg}}
	}
	if len(calls) == 0 {
		return unk("no call of a constraint normaliser found")
	}
	var tok ssa.Value
	var states map[*ssa.BasicBlock]map[string]bool
	var universe []string
	for _, v := range order {
		st, uni := tokenStates(fn, v)
		constrains := false
		for _, d := range calls {
			if s := st[d.blk]; s != nil && len(s) < len(uni) {
				constrains = true
			}
		}
		if constrains {
			if tok != nil {
				return unk("two different string values are tested with constants around the normaliser calls: the operator token is ambiguous")
			}
			tok, states, universe = v, st, uni
		}
	}
	if tok == nil {
		return unk("no string value compared with constants controls the calls of the normalisers: the operator test is not recognisable")
	}
	_ = universe
	var out []opCheck
	// accepted set: what reaches a success return
	errIdx := -1
	res := fn.Signature.Results()
	for i := 0; i < res.Len(); i++ {
		if types.Identical(res.At(i).Type(), types.Universe.Lookup("error").Type()) {
			errIdx = i
		}
	}
	if errIdx < 0 {
		out = append(out, opCheck{Name: "accepted relations", Unk: true, Pos: w.Pos(fn.Pos()), Detail: "the function has no error result: rejected tokens cannot be told from accepted ones"})
	} else {
		accepted := map[string]bool{}
		nSucc := 0
		for _, b := range fn.Blocks {
			ret, ok := b.Instrs[len(b.Instrs)-1].(*ssa.Return)
			if !ok || errIdx >= len(ret.Results) || !isNilConst(ret.Results[errIdx]) {
				continue
			}
			nSucc++
			for c := range states[b] {
				accepted[c] = true
			}
		}
		for _, d := range calls {
			for c := range states[d.blk] {
				accepted[c] = true
			}
		}
		ok := sameSet(accepted, ">=", "=")
		out = append(out, opCheck{Name: "accepted relations", OK: ok, Pos: w.Pos(fn.Pos()),
			Detail: fmt.Sprintf("tokens that reach a normaliser or one of the %d success returns: %s; the OPB format has exactly {\"=\", \">=\"}", nSucc, setString(accepted))})
	}
	// dispatch
	for _, want := range []struct {
		op string
		fn *ssa.Function
	}{{">=", geq}, {"=", eq}} {
		name := fmt.Sprintf("relation %q -> %s", want.op, w.FuncName(want.fn))
		found := false
		var wrong []string
		for _, d := range calls {
			st := states[d.blk]
			if st == nil || len(st) == 0 {
				continue // unreachable
			}
			if st[want.op] {
				if d.callee == want.fn && sameSet(st, want.op) {
					found = true
				} else {
					wrong = append(wrong, fmt.Sprintf("%s is called at %s when the token is in %s", w.FuncName(d.callee), d.pos, setString(st)))
				}
			}
		}
		switch {
		case len(wrong) > 0:
			out = append(out, opCheck{Name: name, Pos: w.Pos(fn.Pos()), Detail: strings.Join(wrong, "; ")})
		case !found:
			out = append(out, opCheck{Name: name, Pos: w.Pos(fn.Pos()), Detail: fmt.Sprintf("no call of %s is reached exactly when the token is %q", w.FuncName(want.fn), want.op)})
		default:
			out = append(out, opCheck{Name: name, OK: true, Pos: w.Pos(fn.Pos()), Detail: "called exactly under that token"})
		}
	}
	return out
}

func ruleR13_2(w *World, r *Report) {
	r.Rule("R13.2", "the OPB constraint-line parser accepts exactly the relations \">=\" and \"=\", dispatched to solver.GtEq and solver.Eq respectively", 3)
	root := w.Func("solver", "ParseOPB")
	geq, eq := w.Func("solver", "GtEq"), w.Func("solver", "Eq")
	if root == nil || geq == nil || eq == nil {
		r.Unk("R13.2", "anchors", "-", "solver.ParseOPB, solver.GtEq or solver.Eq does not exist")
		return
	}
	isNorm := func(f *ssa.Function) bool {
		return f != nil && w.PkgName(f) == "solver" && f.Object() != nil && f.Object().Exported() && f.Signature.Recv() == nil && isPBConstrResult(f) && f.Parent() == nil
	}
	var anchors []*ssa.Function
	for _, f := range w.SortedFns(w.Reachable(root)) {
		if isNorm(f) {
			continue // the normalisers call each other
		}
		calls := false
		for _, c := range callsIn(f) {
			if w.staticCalleeIs(c, geq) || w.staticCalleeIs(c, eq) {
				calls = true
			}
		}
		// a normaliser used as a value (`normalize = Eq`) dispatches as well
		allInstrs(f, func(ins ssa.Instruction) {
			if _, isCall := ins.(ssa.CallInstruction); isCall {
				return
			}
			for _, op := range ins.Operands(nil) {
				if op != nil && (*op == ssa.Value(geq) || *op == ssa.Value(eq)) {
					calls = true
				}
			}
		})
		if !calls {
			continue
		}
		// a function literal that wraps a normaliser is judged where it is selected: in the enclosing function
		a := f
		for a.Parent() != nil {
			a = a.Parent()
		}
		dup := false
		for _, x := range anchors {
			if x == a {
				dup = true
			}
		}
		if !dup {
			anchors = append(anchors, a)
		}
	}
	if len(anchors) == 0 {
		r.Unk("R13.2", "dispatcher", "-", "no function reachable from ParseOPB calls GtEq or Eq: the constraint-line parser was not found")
		return
	}
	for _, f := range anchors {
		for _, c := range opTableVerdict(w, f, geq, eq, isNorm) {
			key := w.FuncName(f) + " " + c.Name
			switch {
			case c.Unk:
				r.Unk("R13.2", key, c.Pos, c.Detail)
			case c.OK:
				r.OK("R13.2", key, c.Pos, c.Detail)
			default:
				r.Bad("R13.2", key, c.Pos, c.Detail)
			}
		}
	}
}

// ---------- R13.6: the duplicated hard/soft predicate ----------

// predLit is one literal of a predicate: a comparison of two named atoms, or a boolean call.
type predLit struct {
	Op   token.Token // comparison; ILLEGAL for a boolean atom
	X, Y string      // atom names; constants are "k:<n>"
	Bool string
	Pos  bool
	call *ssa.Call // for a boolean atom: the call, so that a pure predicate helper can be opened
	args []string  // the names of its arguments
}

// expandBoolCall opens a boolean atom that is the call of a module function whose body is a pure predicate of its
// integer parameters (`func isSoft(weight, top int) bool { return top == 0 || weight < top }`): the alternatives
// (conjunctions over the caller's vocabulary) under which the call yields the wanted value. ok is false when the
// callee is not of that kind.
func expandBoolCall(l predLit) (alts [][]predLit, ok bool) {
	if l.call == nil {
		return nil, false
	}
	f := l.call.Call.StaticCallee()
	if f == nil || len(f.Blocks) == 0 || f.Signature.Results().Len() != 1 || len(f.Params) != len(l.args) {
		return nil, false
	}
	pure := true
	allInstrs(f, func(ins ssa.Instruction) {
		switch ins.(type) {
		case *ssa.BinOp, *ssa.UnOp, *ssa.If, *ssa.Jump, *ssa.Phi, *ssa.Return, *ssa.DebugRef:
		default:
			pure = false
		}
	})
	if !pure {
		return nil, false
	}
	name := func(v ssa.Value) string {
		if n := constName(v); n != "" {
			return n
		}
		if p, isP := v.(*ssa.Parameter); isP {
			if i := paramIndex(f, p); i >= 0 {
				return l.args[i]
			}
		}
		return ""
	}
	good := true
	var path []*ssa.BasicBlock
	on := map[*ssa.BasicBlock]bool{}
	var dfs func(b *ssa.BasicBlock)
	dfs = func(b *ssa.BasicBlock) {
		if on[b] || !good {
			return
		}
		on[b] = true
		path = append(path, b)
		defer func() { on[b] = false; path = path[:len(path)-1] }()
		if ret, isRet := b.Instrs[len(b.Instrs)-1].(*ssa.Return); isRet {
			var conj []predLit
			for _, ec := range pathConds(path) {
				pl, okL := litOf(ec.Cond, ec.True, name)
				if !okL {
					good = false
					return
				}
				conj = append(conj, pl)
			}
			v := ret.Results[0]
			if phi, isPhi := v.(*ssa.Phi); isPhi && phi.Block() == b && len(path) >= 2 {
				for i, p := range b.Preds {
					if p == path[len(path)-2] {
						v = phi.Edges[i]
					}
				}
			}
			if k, isK := v.(*ssa.Const); isK && k.Value != nil {
				if (k.Value.String() == "true") == l.Pos {
					alts = append(alts, conj)
				}
				return
			}
			pl, okL := litOf(v, l.Pos, name)
			if !okL {
				good = false
				return
			}
			alts = append(alts, append(conj, pl))
			return
		}
		for i, sc := range b.Succs {
			if i == 1 && sc == b.Succs[0] {
				continue
			}
			dfs(sc)
		}
	}
	dfs(f.Blocks[0])
	return alts, good
}

type predicate struct {
	DNF   [][]predLit
	Atoms map[string]bool
}

// predNamer names the values of one side in the vocabulary shared by the two functions ("" = not in it).
type predNamer func(v ssa.Value) string

func litOf(cond ssa.Value, pol bool, name predNamer) (predLit, bool) {
	for {
		u, ok := cond.(*ssa.UnOp)
		if !ok || u.Op != token.NOT {
			break
		}
		cond, pol = u.X, !pol
	}
	switch y := cond.(type) {
	case *ssa.BinOp:
		switch y.Op {
		case token.EQL, token.NEQ, token.LSS, token.LEQ, token.GTR, token.GEQ:
		default:
			return predLit{}, false
		}
		if !isIntType(y.X.Type()) || !isIntType(y.Y.Type()) {
			return predLit{}, false
		}
		a, b := name(y.X), name(y.Y)
		if a == "" || b == "" {
			return predLit{}, false
		}
		if strings.HasPrefix(a, "k:") && strings.HasPrefix(b, "k:") {
			return predLit{}, false
		}
		return predLit{Op: y.Op, X: a, Y: b, Pos: pol}, true
	case *ssa.Call:
		f := y.Call.StaticCallee()
		if f == nil {
			return predLit{}, false
		}
		var as []string
		for _, a := range y.Call.Args {
			n := name(a)
			if n == "" {
				return predLit{}, false
			}
			as = append(as, n)
		}
		return predLit{Bool: f.String() + "(" + strings.Join(as, ",") + ")", Pos: pol, call: y, args: as}, true
	}
	return predLit{}, false
}

// controllingPredicate: under which condition, in the shared vocabulary, is block b executed. The region starts at
// the highest dominator reached by walking up while the dominating branch tests something of the vocabulary.
func controllingPredicate(b *ssa.BasicBlock, name predNamer) (predicate, string) {
	start := b
	for d := b.Idom(); d != nil; d = d.Idom() {
		iff, ok := d.Instrs[len(d.Instrs)-1].(*ssa.If)
		if !ok {
			if len(d.Succs) == 1 {
				continue // straight-line dominator
			}
			break
		}
		if _, ok := litOf(iff.Cond, true, name); !ok {
			break
		}
		start = d
	}
	p := predicate{Atoms: map[string]bool{}}
	if start == b {
		return p, "no test over the shared values controls the block"
	}
	// simple paths start -> b
	canReach := map[*ssa.BasicBlock]bool{}
	var back func(x *ssa.BasicBlock)
	back = func(x *ssa.BasicBlock) {
		if canReach[x] {
			return
		}
		canReach[x] = true
		if x == start {
			return
		}
		for _, q := range x.Preds {
			back(q)
		}
	}
	back(b)
	on := map[*ssa.BasicBlock]bool{}
	var cur []*ssa.BasicBlock
	n := 0
	var dfs func(x *ssa.BasicBlock) bool
	dfs = func(x *ssa.BasicBlock) bool {
		if !canReach[x] || on[x] {
			return true
		}
		cur = append(cur, x)
		on[x] = true
		defer func() { on[x] = false; cur = cur[:len(cur)-1] }()
		if x == b {
			n++
			if n > 256 {
				return false
			}
			conjs := [][]predLit{nil}
			for _, ec := range pathConds(cur) {
				if l, ok := litOf(ec.Cond, ec.True, name); ok {
					alts := [][]predLit{{l}}
					if ex, okX := expandBoolCall(l); okX {
						alts = ex
					}
					var next [][]predLit
					for _, c := range conjs {
						for _, a := range alts {
							next = append(next, append(append([]predLit(nil), c...), a...))
						}
					}
					conjs = next
				}
			}
			for _, conj := range conjs {
				for _, l := range conj {
					for _, a := range []string{l.X, l.Y, l.Bool} {
						if a != "" && !strings.HasPrefix(a, "k:") {
							p.Atoms[a] = true
						}
					}
				}
				p.DNF = append(p.DNF, conj)
			}
			return true
		}
		for i, s := range x.Succs {
			if i == 1 && s == x.Succs[0] {
				continue
			}
			if !dfs(s) {
				return false
			}
		}
		return true
	}
	if !dfs(start) {
		return p, "more than 256 paths in the controlling region"
	}
	return p, ""
}

func atomConst(a string) (int64, bool) {
	if !strings.HasPrefix(a, "k:") {
		return 0, false
	}
	var c int64
	if _, err := fmt.Sscanf(a[2:], "%d", &c); err != nil {
		return 0, false
	}
	return c, true
}

func (p predicate) eval(val map[string]int64, bval map[string]bool) bool {
	get := func(a string) int64 {
		if c, ok := atomConst(a); ok {
			return c
		}
		return val[a]
	}
	for _, conj := range p.DNF {
		all := true
		for _, l := range conj {
			var t bool
			if l.Bool != "" {
				t = bval[l.Bool]
			} else {
				x, y := get(l.X), get(l.Y)
				switch l.Op {
				case token.EQL:
					t = x == y
				case token.NEQ:
					t = x != y
				case token.LSS:
					t = x < y
				case token.LEQ:
					t = x <= y
				case token.GTR:
					t = x > y
				case token.GEQ:
					t = x >= y
				}
			}
			if t != l.Pos {
				all = false
				break
			}
		}
		if all {
			return true
		}
	}
	return false
}

func (p predicate) String() string {
	var ds []string
	for _, conj := range p.DNF {
		var ls []string
		for _, l := range conj {
			s := ""
			if l.Bool != "" {
				s = l.Bool
			} else {
				s = l.X + " " + l.Op.String() + " " + l.Y
			}
			if !l.Pos {
				s = "!(" + s + ")"
			}
			ls = append(ls, s)
		}
		if len(ls) == 0 {
			ls = []string{"true"}
		}
		ds = append(ds, strings.Join(ls, " && "))
	}
	if len(ds) == 0 {
		return "false"
	}
	return strings.Join(ds, "  ||  ")
}

// samePredicate compares two predicates as boolean functions of the orderings of their atoms: every assignment of
// small integers around the constants involved is tried. It returns a distinguishing assignment when they differ.
func samePredicate(a, b predicate) (bool, string) {
	atoms := map[string]bool{}
	consts := map[int64]bool{0: true, 1: true}
	var ints, bools []string
	for _, p := range []predicate{a, b} {
		for at := range p.Atoms {
			atoms[at] = true
		}
		for _, conj := range p.DNF {
			for _, l := range conj {
				for _, x := range []string{l.X, l.Y} {
					if c, ok := atomConst(x); ok {
						consts[c-1], consts[c], consts[c+1] = true, true, true
					}
				}
			}
		}
	}
	isBool := map[string]bool{}
	for _, p := range []predicate{a, b} {
		for _, conj := range p.DNF {
			for _, l := range conj {
				if l.Bool != "" {
					isBool[l.Bool] = true
				}
			}
		}
	}
	for at := range atoms {
		if isBool[at] {
			bools = append(bools, at)
		} else {
			ints = append(ints, at)
		}
	}
	sort.Strings(ints)
	sort.Strings(bools)
	if len(ints) > 5 || len(bools) > 6 {
		return false, "too many atoms to compare"
	}
	var dom []int64
	for c := range consts {
		dom = append(dom, c)
	}
	sort.Slice(dom, func(i, j int) bool { return dom[i] < dom[j] })
	dom = append(dom, dom[len(dom)-1]+1, dom[len(dom)-1]+2)
	val := map[string]int64{}
	bval := map[string]bool{}
	var diff string
	var recB func(i int) bool
	recB = func(i int) bool {
		if i == len(bools) {
			if a.eval(val, bval) != b.eval(val, bval) {
				var s []string
				for _, k := range ints {
					s = append(s, fmt.Sprintf("%s=%d", k, val[k]))
				}
				for _, k := range bools {
					s = append(s, fmt.Sprintf("%s=%v", k, bval[k]))
				}
				diff = strings.Join(s, ", ")
				return false
			}
			return true
		}
		for _, v := range []bool{false, true} {
			bval[bools[i]] = v
			if !recB(i + 1) {
				return false
			}
		}
		return true
	}
	var recI func(i int) bool
	recI = func(i int) bool {
		if i == len(ints) {
			return recB(0)
		}
		for _, v := range dom {
			val[ints[i]] = v
			if !recI(i + 1) {
				return false
			}
		}
		return true
	}
	if recI(0) {
		return true, ""
	}
	return false, diff
}

// relaxPair finds, in the caller, the calls that hand a loop-carried counter to a module function that stores it
// into a slice element, the counter being incremented by the caller in the same loop: the callee numbers the
// relaxation literal, the caller counts it.
type relaxPair struct {
	Call    *ssa.Call
	Callee  *ssa.Function
	ArgIdx  int
	Counter *ssa.Phi
	Incr    *ssa.BinOp
	Store   *ssa.Store
}

func findRelaxPairs(w *World, caller *ssa.Function) []relaxPair {
	var out []relaxPair
	for _, ci := range callsIn(caller) {
		call, ok := ci.(*ssa.Call)
		if !ok {
			continue
		}
		callee := call.Call.StaticCallee()
		if callee == nil {
			continue
		}
		callee = w.unwrap(callee)
		if !w.InModule(callee) || w.PkgName(callee) != w.PkgName(caller) {
			continue
		}
		for i, a := range call.Call.Args {
			phi, ok := a.(*ssa.Phi)
			if !ok || !isIntType(phi.Type()) || i >= len(callee.Params) {
				continue
			}
			// incremented by the caller: some edge of the phi is phi + c, c > 0
			var incr *ssa.BinOp
			for _, e := range phi.Edges {
				if b, ok := e.(*ssa.BinOp); ok && b.Op == token.ADD && b.X == ssa.Value(phi) {
					if c, ok := constInt(b.Y); ok && c > 0 {
						incr = b
					}
				}
			}
			if incr == nil {
				continue
			}
			// stored by the callee into an element
			var st *ssa.Store
			allInstrs(callee, func(ins ssa.Instruction) {
				if s, ok := ins.(*ssa.Store); ok && s.Val == ssa.Value(callee.Params[i]) {
					if _, isElem := s.Addr.(*ssa.IndexAddr); isElem {
						st = s
					}
				}
			})
			if st == nil {
				continue
			}
			out = append(out, relaxPair{Call: call, Callee: callee, ArgIdx: i, Counter: phi, Incr: incr, Store: st})
		}
	}
	return out
}

func constName(v ssa.Value) string {
	if c, ok := constInt(v); ok {
		return fmt.Sprintf("k:%d", c)
	}
	return ""
}

func relaxPredicates(w *World, rp relaxPair) (callerP, calleeP predicate, unk string) {
	call, callee := rp.Call, rp.Callee
	// shared vocabulary: argument #i of the call, result #j of the call, integer constants
	callerName := func(v ssa.Value) string {
		if n := constName(v); n != "" {
			return n
		}
		if ex, ok := v.(*ssa.Extract); ok && ex.Tuple == ssa.Value(call) {
			return fmt.Sprintf("result#%d", ex.Index)
		}
		if v == ssa.Value(call) && call.Type() != nil {
			if _, isTuple := call.Type().(*types.Tuple); !isTuple {
				return "result#0"
			}
		}
		for i, a := range call.Call.Args {
			if a == v {
				return fmt.Sprintf("arg#%d", i)
			}
		}
		return ""
	}
	// callee: values returned at index j by every return that returns a non-constant there
	retVal := map[ssa.Value]int{}
	nres := callee.Signature.Results().Len()
	for j := 0; j < nres; j++ {
		var vals []ssa.Value
		for _, b := range callee.Blocks {
			ret, ok := b.Instrs[len(b.Instrs)-1].(*ssa.Return)
			if !ok || j >= len(ret.Results) {
				continue
			}
			if _, isC := ret.Results[j].(*ssa.Const); isC {
				continue
			}
			dup := false
			for _, x := range vals {
				if x == ret.Results[j] {
					dup = true
				}
			}
			if !dup {
				vals = append(vals, ret.Results[j])
			}
		}
		if len(vals) == 1 {
			retVal[vals[0]] = j
		}
	}
	calleeName := func(v ssa.Value) string {
		if n := constName(v); n != "" {
			return n
		}
		if p, ok := v.(*ssa.Parameter); ok {
			if i := paramIndex(callee, p); i >= 0 {
				return fmt.Sprintf("arg#%d", i)
			}
		}
		if j, ok := retVal[v]; ok {
			return fmt.Sprintf("result#%d", j)
		}
		return ""
	}
	var why string
	callerP, why = controllingPredicate(rp.Incr.Block(), callerName)
	if why != "" {
		return callerP, calleeP, "caller: " + why
	}
	calleeP, why = controllingPredicate(rp.Store.Block(), calleeName)
	if why != "" {
		return callerP, calleeP, "callee: " + why
	}
	return callerP, calleeP, ""
}

func ruleR13_6(w *World, r *Report) {
	r.Rule("R13.6", "the predicate under which parseWCNFClause numbers a relaxation literal and the predicate under which ParseWCNF counts it are the same predicate of (top weight, clause weight)", 1)
	caller := w.Func("maxsat", "ParseWCNF")
	if caller == nil {
		r.Unk("R13.6", "maxsat.ParseWCNF", "-", "entry point not found")
		return
	}
	pairs := findRelaxPairs(w, caller)
	if len(pairs) == 0 {
		r.Unk("R13.6", "maxsat.ParseWCNF relaxation counter", w.Pos(caller.Pos()), "no call was found that passes a counter incremented by ParseWCNF to a function storing it into a clause: the two predicates cannot be located")
		return
	}
	for _, rp := range pairs {
		key := w.FuncName(caller) + " / " + w.FuncName(rp.Callee) + " hard-soft predicate"
		a, b, unk := relaxPredicates(w, rp)
		if unk != "" {
			r.Unk("R13.6", key, w.InstrPos(rp.Call), unk)
			continue
		}
		same, diff := samePredicate(a, b)
		r.Check(same, "R13.6", key, w.InstrPos(rp.Incr),
			"both are  "+a.String(),
			fmt.Sprintf("the counter is incremented under  %s  but the literal is stored under  %s ; they differ for %s", a.String(), b.String(), diff))
		// and the shared predicate is the one the format defines: a clause is soft when there is no top weight or its
		// weight is strictly below the top weight (a weight equal to the top marks a hard clause)
		if same {
			topArg, weightRes := "", ""
			for i, arg := range rp.Call.Call.Args {
				if typeShort(arg.Type()) == "int" && topArg == "" {
					topArg = fmt.Sprintf("arg#%d", i)
				}
			}
			res := rp.Callee.Signature.Results()
			for j := 0; j < res.Len(); j++ {
				if typeShort(res.At(j).Type()) == "int" && weightRes == "" {
					weightRes = fmt.Sprintf("result#%d", j)
				}
			}
			ref := predicate{DNF: [][]predLit{{{Op: token.EQL, X: topArg, Y: "k:0", Pos: true}}, {{Op: token.LSS, X: weightRes, Y: topArg, Pos: true}}}, Atoms: map[string]bool{topArg: true, weightRes: true}}
			key2 := w.FuncName(caller) + " / " + w.FuncName(rp.Callee) + " soft means below the top weight"
			if topArg == "" || weightRes == "" || !a.Atoms[topArg] || !a.Atoms[weightRes] {
				r.Unk("R13.6", key2, w.InstrPos(rp.Incr), "cannot identify the top weight argument and the weight result in the predicate  "+a.String())
			} else {
				ok2, diff2 := samePredicate(a, ref)
				r.Check(ok2, "R13.6", key2, w.InstrPos(rp.Incr), "the predicate is  top == 0 || weight < top",
					fmt.Sprintf("the predicate  %s  is not `no top weight, or weight strictly below the top weight` (differs for %s): clauses carrying the top weight are relaxed, so hard clauses can be violated", a.String(), diff2))
			}
		}
	}
}

func fixtureR13(fw *World) []string {
	var fails []string
	if fw.SSA["formats"] == nil {
		return []string{"R13 fixture: package formats missing"}
	}
	geq, eq := fw.Func("formats", "GtEq"), fw.Func("formats", "Eq")
	isNorm := func(f *ssa.Function) bool {
		return f != nil && (f == geq || f == eq || f == fw.Func("formats", "LtEq"))
	}
	for _, tc := range []struct {
		fn   string
		good bool
	}{{"GoodIfChain", true}, {"GoodSwitch", true}, {"GoodSwitchDispatch", true}, {"BadSwapped", false}, {"BadExtraOperator", false}, {"BadNoReject", false}, {"BadBothGtEq", false}} {
		f := fw.Func("formats", tc.fn)
		if f == nil || geq == nil || eq == nil {
			fails = append(fails, "R13.2 fixture: function missing: "+tc.fn)
			continue
		}
		allOK := true
		for _, c := range opTableVerdict(fw, f, geq, eq, isNorm) {
			if !c.OK {
				allOK = false
			}
		}
		if allOK != tc.good {
			fails = append(fails, fmt.Sprintf("R13.2 fixture %s: expected good=%v", tc.fn, tc.good))
		}
	}
	for _, tc := range []struct {
		fn   string
		good bool
	}{{"CountGood", true}, {"CountGoodRewritten", true}, {"CountBadLeq", false}, {"CountBadMissingTopTest", false}} {
		f := fw.Func("formats", tc.fn)
		if f == nil {
			fails = append(fails, "R13.6 fixture: function missing: "+tc.fn)
			continue
		}
		pairs := findRelaxPairs(fw, f)
		if len(pairs) != 1 {
			fails = append(fails, fmt.Sprintf("R13.6 fixture %s: %d relax pairs found", tc.fn, len(pairs)))
			continue
		}
		a, b, unk := relaxPredicates(fw, pairs[0])
		same := false
		if unk == "" {
			same, _ = samePredicate(a, b)
		}
		if same != tc.good {
			fails = append(fails, fmt.Sprintf("R13.6 fixture %s: expected same=%v (unk=%q, %s vs %s)", tc.fn, tc.good, unk, a.String(), b.String()))
		}
	}
	return fails
}
