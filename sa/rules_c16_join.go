package main

import (
	"fmt"
	"go/token"
	"go/types"
	"sort"
	"strings"

	"golang.org/x/tools/go/ssa"
)

// R16.2: every goroutine started by library code (outside verbose mode) hands its results over through a join.
//
// For a `go` statement g in function P starting goroutine function G:
//   - shared cells: local variables of P captured by G. G-written cells may be touched by P, and P-written cells
//     read by G, only after a join;
//   - shared objects: everything G may write (transitive field effects, by Type.field) may be accessed by P (directly
//     or through callees, non-local memory only), and everything G may read may be written by P, only after a join.
//
// A join is (a) the exhaustion edge of a `for range ch` / `v, ok := <-ch` over a channel that G closes, or (b) a
// receive from a channel on which G sends exactly once outside any loop. After a join only the effects G can
// still perform after that synchronisation event ("late effects") conflict.

type goEvent struct {
	Kind  string // "close" or "send"
	Chan  string // canonical channel name
	Late  map[string]bool
	LateR map[string]bool
	Ins   ssa.Instruction
}

type joinEnv struct {
	w   *World
	eff *Effects
}

// canonChan names a channel value so that the spawner's and the goroutine's views can be compared.
func canonChan(v ssa.Value, env map[ssa.Value]ssa.Value, depth int) string {
	if depth > 8 || v == nil {
		return fmt.Sprintf("?%p", v)
	}
	if b, ok := env[v]; ok {
		return canonChan(b, env, depth+1)
	}
	switch x := v.(type) {
	case *ssa.MakeChan:
		return fmt.Sprintf("mk:%p", x)
	case *ssa.UnOp:
		if x.Op == token.MUL {
			switch a := x.X.(type) {
			case *ssa.FieldAddr:
				_, f, base, _ := fieldOf(a)
				return canonChan(base, env, depth+1) + "." + f
			case *ssa.Alloc:
				// a local variable: if it is assigned exactly once, it is that value
				var st *ssa.Store
				n := 0
				for _, r := range *a.Referrers() {
					if s2, ok := r.(*ssa.Store); ok && s2.Addr == a {
						st = s2
						n++
					}
				}
				if n == 1 {
					return canonChan(st.Val, env, depth+1)
				}
				return fmt.Sprintf("cell:%p", a)
			case *ssa.FreeVar:
				if b, ok := env[a]; ok {
					if al, ok := b.(*ssa.Alloc); ok {
						var st *ssa.Store
						n := 0
						for _, r := range *al.Referrers() {
							if s2, ok := r.(*ssa.Store); ok && s2.Addr == al {
								st = s2
								n++
							}
						}
						if n == 1 {
							return canonChan(st.Val, env, depth+1)
						}
						return fmt.Sprintf("cell:%p", al)
					}
				}
			}
		}
	case *ssa.ChangeType:
		return canonChan(x.X, env, depth+1)
	}
	return fmt.Sprintf("val:%p", v)
}

// lateEffects: effects G can still perform after instruction `from` (exclusive).
func (je *joinEnv) lateEffects(g *ssa.Function, from ssa.Instruction) (wr, rd map[string]bool) {
	wr, rd = map[string]bool{}, map[string]bool{}
	visit := func(ins ssa.Instruction) {
		switch x := ins.(type) {
		case *ssa.Store:
			if f, ok := rootField(x.Addr); ok && !localBase(x.Addr) {
				wr[f] = true
			}
			if fv, ok := x.Addr.(*ssa.FreeVar); ok {
				wr["cell:"+fv.Name()] = true
			}
		case *ssa.UnOp:
			if x.Op == token.MUL {
				if f, ok := rootField(x.X); ok && !localBase(x.X) {
					rd[f] = true
				}
				if fv, ok := x.X.(*ssa.FreeVar); ok {
					rd["cell:"+fv.Name()] = true
				}
			}
		case ssa.CallInstruction:
			for _, c := range je.w.Callees[x] {
				for f := range je.eff.trans[c] {
					wr[f] = true
				}
				for f := range je.eff.transR[c] {
					rd[f] = true
				}
			}
			if mc, ok := x.Common().Value.(*ssa.MakeClosure); ok {
				if cf, ok := mc.Fn.(*ssa.Function); ok {
					for f := range je.eff.trans[cf] {
						wr[f] = true
					}
				}
			}
		}
	}
	b := from.Block()
	for i := indexOfInstr(b, from) + 1; i < len(b.Instrs); i++ {
		visit(b.Instrs[i])
	}
	for rb := range reachableBlocks(b, false) {
		for _, ins := range rb.Instrs {
			visit(ins)
		}
	}
	return
}

func inLoop(fn *ssa.Function, b *ssa.BasicBlock) bool {
	for _, h := range loopHeaders(fn) {
		if loopBlocks(fn, h)[b] {
			return true
		}
	}
	return false
}

// goroutineEvents lists the synchronisation events of goroutine function G with the channels named in the
// spawner's terms (env maps G's free variables / parameters to the spawner's values).
func (je *joinEnv) goroutineEvents(g *ssa.Function, env map[ssa.Value]ssa.Value) []goEvent {
	var evs []goEvent
	sendCount := map[string]int{}
	allInstrs(g, func(ins ssa.Instruction) {
		if s, ok := ins.(*ssa.Send); ok {
			sendCount[canonChan(s.Chan, env, 0)]++
		}
	})
	allInstrs(g, func(ins ssa.Instruction) {
		switch x := ins.(type) {
		case *ssa.Call:
			if b, ok := x.Call.Value.(*ssa.Builtin); ok && b.Name() == "close" {
				wr, rd := je.lateEffects(g, x)
				evs = append(evs, goEvent{"close", canonChan(x.Call.Args[0], env, 0), wr, rd, x})
			}
		case *ssa.Defer:
			if b, ok := x.Call.Value.(*ssa.Builtin); ok && b.Name() == "close" {
				// runs at exit: nothing of G happens afterwards (other deferred calls are ignored: none write shared state
				// unless they appear as effects of G anyway; we are conservative and require the defer to be the first one)
				evs = append(evs, goEvent{"close", canonChan(x.Call.Args[0], env, 0), map[string]bool{}, map[string]bool{}, x})
			}
		case *ssa.Send:
			cn := canonChan(x.Chan, env, 0)
			if sendCount[cn] == 1 && !inLoop(g, x.Block()) {
				wr, rd := je.lateEffects(g, x)
				evs = append(evs, goEvent{"send", cn, wr, rd, x})
			}
		}
	})
	// a callee that closes its channel parameter on every return by a deferred close (the Interface contract)
	if len(g.Params) > 0 {
		cc := &chChecker{w: je.w, memo: map[string]*chSummary{}}
		for _, p := range chanParams(g) {
			sum := cc.analyse(g, p, 2, false)
			all := len(sum.outcomes) > 0
			for _, o := range sum.outcomes {
				if !o.closed {
					all = false
				}
			}
			deferred := false
			allInstrs(g, func(ins ssa.Instruction) {
				if d, ok := ins.(*ssa.Defer); ok && isCloseOf(&d.Call, p) {
					deferred = true
				}
			})
			if all && deferred && len(sum.viol) == 0 {
				// already listed by the Defer case above; nothing to add
				_ = p
			}
		}
	}
	return evs
}

func ruleR16_2(w *World, r *Report) {
	r.Rule("R16.2", "every goroutine started by library code outside verbose mode is joined (complete drain of a channel it closes, or receipt of its single final send) before the spawner touches what the goroutine may write, or writes what it may read", 4)
	eff := w.effects()
	je := &joinEnv{w, eff}
	for _, fn := range w.LibFns() {
		for _, b := range fn.Blocks {
			for _, ins := range b.Instrs {
				g, ok := ins.(*ssa.Go)
				if !ok {
					continue
				}
				key := fmt.Sprintf("%s go#%d", w.FuncName(fn), goOrdinal(fn, g))
				// exemption: only under Verbose
				found, holds := underCond(b, func(c ssa.Value) (bool, bool) {
					if _, ok := isFieldLoad(c, "", "Verbose"); ok {
						return true, true
					}
					return false, false
				})
				if found && holds {
					r.OK("R16.2", key, w.InstrPos(g), "exempt: started only when the Verbose option is set (the property excludes verbose output)")
					continue
				}
				bad := je.checkGo(fn, g)
				if len(bad) > 0 {
					r.Bad("R16.2", key, w.InstrPos(g), strings.Join(dedupe(bad), "; "))
				} else {
					r.OK("R16.2", key, w.InstrPos(g), "results handed over through a join")
				}
			}
		}
	}
}

func goOrdinal(fn *ssa.Function, g *ssa.Go) int {
	n := 0
	for _, b := range fn.Blocks {
		for _, ins := range b.Instrs {
			if x, ok := ins.(*ssa.Go); ok {
				n++
				if x == g {
					return n
				}
			}
		}
	}
	return 0
}

func (je *joinEnv) checkGo(p *ssa.Function, g *ssa.Go) (bad []string) {
	w := je.w
	var G *ssa.Function
	env := map[ssa.Value]ssa.Value{}
	sharedCells := map[*ssa.Alloc]string{} // spawner cell -> free variable name in G
	if mc, ok := g.Call.Value.(*ssa.MakeClosure); ok {
		G = mc.Fn.(*ssa.Function)
		for i, b := range mc.Bindings {
			env[G.FreeVars[i]] = b
			if al, ok := b.(*ssa.Alloc); ok {
				sharedCells[al] = G.FreeVars[i].Name()
			}
		}
	} else if cs := w.Callees[g]; len(cs) == 1 {
		G = cs[0]
		args := g.Call.Args
		if g.Call.IsInvoke() {
			args = append([]ssa.Value{g.Call.Value}, args...)
		}
		for i, prm := range G.Params {
			if i < len(args) {
				env[prm] = args[i]
			}
		}
	} else {
		return []string{"goroutine function cannot be resolved statically"}
	}
	evs := je.goroutineEvents(G, env)
	// goroutine effects (whole life)
	gW, gR := map[string]bool{}, map[string]bool{}
	for f := range je.eff.trans[G] {
		gW[f] = true
	}
	for f := range je.eff.transR[G] {
		gR[f] = true
	}
	cellW, cellR := map[string]bool{}, map[string]bool{}
	for gf := range w.Reachable(G) {
		allInstrs(gf, func(ins ssa.Instruction) {
			switch x := ins.(type) {
			case *ssa.Store:
				if fv, ok := x.Addr.(*ssa.FreeVar); ok && gf == G {
					cellW[fv.Name()] = true
				}
			case *ssa.UnOp:
				if fv, ok := x.X.(*ssa.FreeVar); ok && x.Op == token.MUL && gf == G {
					cellR[fv.Name()] = true
				}
			}
		})
	}
	// join points in the spawner
	type joinPt struct {
		ev    goEvent
		after func(b *ssa.BasicBlock, ins ssa.Instruction) bool
	}
	var joins []joinPt
	for _, ev := range evs {
		ev := ev
		switch ev.Kind {
		case "close":
			sites := drainSites(p, func(v ssa.Value) bool { return canonChan(v, nil, 0) == ev.Chan })
			if len(sites) > 0 {
				joins = append(joins, joinPt{ev, func(b *ssa.BasicBlock, _ ssa.Instruction) bool { return drainedAt(b, sites) }})
			}
		case "send":
			allInstrs(p, func(ins ssa.Instruction) {
				u, ok := ins.(*ssa.UnOp)
				if !ok || u.Op != token.ARROW || canonChan(u.X, nil, 0) != ev.Chan {
					return
				}
				joins = append(joins, joinPt{ev, func(b *ssa.BasicBlock, at ssa.Instruction) bool {
					return at != u && instrDominates(u, at)
				}})
			})
		}
	}
	// conflicting effects of G at a spawner instruction
	conflictSets := func(at ssa.Instruction) (map[string]bool, map[string]bool, bool) {
		curW, curR := gW, gR
		joined := false
		for _, j := range joins {
			if j.after(at.Block(), at) {
				if !joined || len(j.ev.Late) < len(curW) {
					curW, curR = j.ev.Late, j.ev.LateR
				}
				joined = true
			}
		}
		return curW, curR, joined
	}
	// walk the spawner after the go statement
	reach := reachableBlocks(g.Block(), false)
	check := func(ins ssa.Instruction) {
		curW, curR, joined := conflictSets(ins)
		lateCell := func(name string, m map[string]bool) bool { return m["cell:"+name] }
		switch x := ins.(type) {
		case *ssa.UnOp:
			if x.Op != token.MUL {
				return
			}
			if al, ok := x.X.(*ssa.Alloc); ok {
				if name, sh := sharedCells[al]; sh && cellW[name] && (!joined || lateCell(name, curW)) {
					bad = append(bad, fmt.Sprintf("variable %s is written by the goroutine and read by the spawner at %s without a join in between", name, w.InstrPos(ins)))
				}
				return
			}
			if f, ok := rootField(x.X); ok && !localBase(x.X) && curW[f] {
				bad = append(bad, fmt.Sprintf("field %s may be written by the goroutine and is read by the spawner at %s before a join", f, w.InstrPos(ins)))
			}
		case *ssa.Store:
			if al, ok := x.Addr.(*ssa.Alloc); ok {
				// `return a, b` with a, b the named results themselves: go/ssa writes each result cell with its own
				// value; nothing changes and the compiler emits no store
				if ld, isLd := x.Val.(*ssa.UnOp); isLd && ld.Op == token.MUL && ld.X == ssa.Value(al) {
					return
				}
				if name, sh := sharedCells[al]; sh && (cellW[name] || cellR[name]) && (!joined || lateCell(name, curW) || lateCell(name, curR)) {
					bad = append(bad, fmt.Sprintf("variable %s is shared with the goroutine and written by the spawner at %s without a join in between", name, w.InstrPos(ins)))
				}
				return
			}
			if f, ok := rootField(x.Addr); ok && !localBase(x.Addr) && (curW[f] || curR[f]) {
				bad = append(bad, fmt.Sprintf("field %s is used by the goroutine and written by the spawner at %s before a join", f, w.InstrPos(ins)))
			}
		case ssa.CallInstruction:
			if x == ssa.CallInstruction(g) {
				return
			}
			for _, c := range w.Callees[x] {
				var hits []string
				for f := range je.eff.trans[c] {
					if curW[f] || curR[f] {
						hits = append(hits, f)
					}
				}
				for f := range je.eff.transR[c] {
					if curW[f] {
						hits = append(hits, f)
					}
				}
				if len(hits) > 0 {
					sort.Strings(hits)
					hits = dedupe(hits)
					if len(hits) > 4 {
						hits = append(hits[:4], "...")
					}
					bad = append(bad, fmt.Sprintf("call of %s at %s touches %s while the goroutine may still use them (no join before)", w.FuncName(c), w.InstrPos(ins), strings.Join(hits, ", ")))
				}
			}
		}
	}
	after := false
	for _, ins := range g.Block().Instrs {
		if ins == ssa.Instruction(g) {
			after = true
			continue
		}
		if after {
			check(ins)
		}
	}
	for b := range reach {
		if b == g.Block() {
			for _, ins := range b.Instrs {
				if ins == ssa.Instruction(g) {
					break
				}
				check(ins)
			}
			continue
		}
		for _, ins := range b.Instrs {
			check(ins)
		}
	}
	// a goroutine that writes captured variables or shared objects must be joinable at all
	if len(joins) == 0 && (len(cellW) > 0 || len(gW) > 0) {
		// only a problem if the spawner returns something derived... keep it as information: accesses were checked above.
		_ = types.Typ
	}
	sort.Strings(bad)
	return bad
}

func fixtureR16_2(fw *World) []string {
	var fails []string
	eff := fw.effects()
	je := &joinEnv{fw, eff}
	want := map[string]bool{"joins.BadNoJoin": true, "joins.BadEarlyReturnDrain": true, "joins.BadFieldRead": true,
		"joins.GoodDrain": false, "joins.GoodRecv": false, "joins.GoodForwarder": false}
	seen := map[string]bool{}
	for _, fn := range fw.Fns {
		if fw.PkgName(fn) != "joins" {
			continue
		}
		allInstrs(fn, func(ins ssa.Instruction) {
			g, ok := ins.(*ssa.Go)
			if !ok {
				return
			}
			name := "joins." + fn.Name()
			exp, tracked := want[name]
			if !tracked {
				return
			}
			seen[name] = true
			bad := je.checkGo(fn, g)
			if exp && len(bad) == 0 {
				fails = append(fails, "R16.2 fixture: expected a report in "+name)
			}
			if !exp && len(bad) > 0 {
				fails = append(fails, "R16.2 fixture: unexpected report in "+name+": "+strings.Join(bad, "; "))
			}
		})
	}
	for n := range want {
		if !seen[n] {
			fails = append(fails, "R16.2 fixture: function "+n+" has no go statement")
		}
	}
	return fails
}
