package main

import (
	"fmt"
	"go/token"
	"go/types"
	"strings"

	"golang.org/x/tools/go/ssa"
)

// Rules added after the second half of the fourth round of externally written faults.

// ---------- R13.12: a line read with bufio.Reader.ReadLine is read whole ----------

func ruleR13_12(w *World, r *Report) {
	r.Rule("R13.12", "a text reader that takes a line with (*bufio.Reader).ReadLine looks at its `isPrefix` result: the call returns at most one buffer (4096 bytes) of a long line, and what is left would be read as data", 0)
	n := 0
	for _, fn := range w.LibFns() {
		k := 0
		for _, ci := range callsIn(fn) {
			c, ok := ci.(*ssa.Call)
			if !ok || w.calleeName(&c.Call) != "(*bufio.Reader).ReadLine" {
				continue
			}
			n++
			k++
			used := false
			for _, ref := range *c.Referrers() {
				if ex, isEx := ref.(*ssa.Extract); isEx && ex.Index == 1 && len(*ex.Referrers()) > 0 {
					used = true
				}
			}
			r.Check(used, "R13.12", fmt.Sprintf("%s ReadLine #%d reads the whole line", w.FuncName(fn), k), w.InstrPos(c), "isPrefix is consulted",
				"the `isPrefix` result of ReadLine is discarded: of a line longer than the reader's buffer (a long comment) only the first 4096 bytes are skipped, the rest is parsed as clauses")
		}
	}
	if n == 0 {
		r.OK("R13.12", "ReadLine calls", "-", "no reader of the library uses (*bufio.Reader).ReadLine")
	}
}

// ---------- R13.13: the clause parser of package explain reads every token it is handed ----------

func ruleR13_13(w *World, r *Report) {
	r.Rule("R13.13", "a function of package explain that turns a list of tokens into literals (strconv.Atoi in a loop over a []string parameter) visits the whole list: a clause without a final 0 (accepted at the end of the input) must not lose its last literal", 1)
	n := 0
	for _, fn := range w.LibFns() {
		if w.PkgName(fn) != "explain" || len(fn.Blocks) == 0 {
			continue
		}
		for _, ci := range callsIn(fn) {
			c, ok := ci.(*ssa.Call)
			if !ok || !inLoop(fn, c.Block()) {
				continue
			}
			if pkg, name := stdCallee(&c.Call); pkg != "strconv" || name != "Atoi" {
				continue
			}
			// the token: element of a slice; the slice must be a parameter itself, ranged in full
			sl, idx, okE := elemOfSlice(c.Call.Args[0])
			if !okE {
				continue
			}
			n++
			key := fmt.Sprintf("%s token loop #%d is over the whole list", w.FuncName(fn), n)
			_, isParam := sl.(*ssa.Parameter)
			full := fullRangeIndex(idx, func(b ssa.Value) bool {
				return isLenOf(b, func(x ssa.Value) bool { return x == sl })
			})
			switch {
			case !isParam:
				if s2, isSlice := sl.(*ssa.Slice); isSlice {
					if _, p := s2.X.(*ssa.Parameter); p {
						r.Bad("R13.13", key, w.InstrPos(c), "the loop runs over a sub-slice of the token list it is handed: tokens outside it (the last literal of a clause that has no final 0) are dropped")
						continue
					}
				}
				r.OK("R13.13", key, w.InstrPos(c), "tokens come from a list built here")
			case !full:
				r.Bad("R13.13", key, w.InstrPos(c), "the loop over the token list does not run from 0 to its length")
			default:
				r.OK("R13.13", key, w.InstrPos(c), "full range over the parameter")
			}
		}
	}
	if n == 0 {
		r.Unk("R13.13", "token loops", "-", "no function of package explain converts tokens with strconv.Atoi in a loop")
	}
}

// ---------- R13.14: the error of a bufio.Scanner is consulted ----------

func ruleR13_14(w *World, r *Report) {
	r.Rule("R13.14", "a library function that reads with a bufio.Scanner loop and can return success calls the scanner's Err() and tests its result before the success return: the scanner stops silently on a line longer than its buffer or on a failing reader, and what was not read would count as read", 3)
	n := 0
	for _, fn := range w.LibFns() {
		if len(fn.Blocks) == 0 {
			continue
		}
		var scan *ssa.Call
		for _, ci := range callsIn(fn) {
			if c, ok := ci.(*ssa.Call); ok && w.calleeName(&c.Call) == "(*bufio.Scanner).Scan" && inLoop(fn, c.Block()) {
				scan = c
			}
		}
		if scan == nil {
			continue
		}
		res := fn.Signature.Results()
		if res.Len() == 0 || !isErrorType(res.At(res.Len()-1).Type()) {
			continue
		}
		n++
		key := w.FuncName(fn) + " consults the scanner's error"
		// Err() calls on the same scanner whose result is compared with nil
		var tested []*ssa.BasicBlock
		for _, ci := range callsIn(fn) {
			c, ok := ci.(*ssa.Call)
			if !ok || w.calleeName(&c.Call) != "(*bufio.Scanner).Err" || c.Call.Args[0] != scan.Call.Args[0] {
				continue
			}
			for _, ref := range *c.Referrers() {
				if bo, isB := ref.(*ssa.BinOp); isB && (bo.Op == token.NEQ || bo.Op == token.EQL) {
					for _, r2 := range *bo.Referrers() {
						if iff, isIf := r2.(*ssa.If); isIf {
							// the successor taken when the error is nil
							nilEdge := 1
							if bo.Op == token.EQL {
								nilEdge = 0
							}
							tested = append(tested, iff.Block().Succs[nilEdge])
						}
					}
				}
			}
		}
		var bad []string
		allInstrs(fn, func(ins ssa.Instruction) {
			ret, ok := ins.(*ssa.Return)
			if !ok || ret.Block() == fn.Recover || !isSuccessReturn(ret) {
				return
			}
			// only returns after the end of the input: reachable from the edge taken when Scan answers false
			afterEnd := false
			for _, ref := range *scan.Referrers() {
				if iff, isIf := ref.(*ssa.If); isIf {
					end := iff.Block().Succs[1]
					if end == ret.Block() || reachableBlocks(end, true)[ret.Block()] {
						afterEnd = true
					}
				}
			}
			if !afterEnd {
				return
			}
			ok2 := false
			for _, tb := range tested {
				if tb == ret.Block() || tb.Dominates(ret.Block()) {
					ok2 = true
				}
			}
			if !ok2 {
				bad = append(bad, w.InstrPos(ret))
			}
		})
		if len(bad) > 0 {
			r.Bad("R13.14", key, w.InstrPos(scan), "success is returned (at "+strings.Join(sortedStrings(dedupe(bad)), ", ")+") without the scanner's Err() having been found nil: when the scanner stops early (a line longer than 64 KiB, a failing reader) the rest of the input is silently taken as read - a certificate is accepted without its remaining lines having been checked, a problem is read without its remaining constraints")
		} else {
			r.OK("R13.14", key, w.InstrPos(scan), "every success return after the loop is behind Err() == nil")
		}
	}
	if n == 0 {
		r.Unk("R13.14", "scanner loops", "-", "no library function reads with a bufio.Scanner loop")
	}
}

// ---------- R1.16: Model() refuses only a solver without a model ----------

func ruleR1_16(w *World, r *Report) {
	r.Rule("R1.16", "Solver.Model panics only under `lastModel == nil` (no model was ever published): a problem without variables has an empty, non-nil model", 1)
	fn := w.Func("solver", "Solver.Model")
	if fn == nil {
		r.Unk("R1.16", "solver.(*Solver).Model", "-", "method not found")
		return
	}
	n := 0
	allInstrs(fn, func(ins ssa.Instruction) {
		p, ok := ins.(*ssa.Panic)
		if !ok {
			return
		}
		n++
		okc := false
		for _, ec := range dominatingConds(p.Block()) {
			bo, isB := ec.Cond.(*ssa.BinOp)
			if !isB || !isNilConst(bo.Y) {
				continue
			}
			if _, f, _, okF := loadedFieldOf(bo.X); okF && f == "lastModel" && (bo.Op == token.EQL) == ec.True {
				okc = true
			}
		}
		r.Check(okc, "R1.16", fmt.Sprintf("(*solver.Solver).Model panic #%d", n), w.InstrPos(p), "under lastModel == nil",
			"Model panics under a test other than `no model was published` (a length test is also true for the empty model of a satisfiable problem without variables): Solve answers Sat and Model panics")
	})
	if n == 0 {
		r.OK("R1.16", "(*solver.Solver).Model panics", w.Pos(fn.Pos()), "Model has no panic")
	}
}

// ---------- R4.8: the MAXSAT constructors keep the coefficients they are given ----------

func ruleR4_8(w *World, r *Report) {
	r.Rule("R4.8", "a constraint constructor of package maxsat that is handed a coefficient list stores that list in the constraint it returns (a degree of 1 does not make coefficients irrelevant: a zero or negative coefficient changes which literals can satisfy the constraint)", 3)
	n := 0
	for _, fn := range w.LibFns() {
		if w.PkgName(fn) != "maxsat" || len(fn.Blocks) == 0 || fn.Signature.Recv() != nil || fn.Signature.Results().Len() != 1 || typeShort(fn.Signature.Results().At(0).Type()) != "maxsat.Constr" {
			continue
		}
		var coeffs *ssa.Parameter
		for _, p := range fn.Params {
			if typeShort(p.Type()) == "[]int" {
				coeffs = p
			}
		}
		if coeffs == nil {
			continue
		}
		n++
		key := w.FuncName(fn) + " keeps the coefficients"
		okAll, rets := true, 0
		allInstrs(fn, func(ins ssa.Instruction) {
			ret, ok := ins.(*ssa.Return)
			if !ok || len(ret.Results) != 1 {
				return
			}
			rets++
			fields, _ := returnedStructFields(ret.Results[0])
			if v, has := fields["Coeffs"]; has && v == ssa.Value(coeffs) {
				return
			}
			// built by a shared constructor of the package (`return newConstr(lits, coeffs, atLeast, weight)`): the
			// argument handed in for the parameter that becomes Coeffs must be the list
			if c, isC := ret.Results[0].(*ssa.Call); isC {
				if g := c.Call.StaticCallee(); g != nil && w.PkgName(g) == "maxsat" && len(g.Blocks) > 0 {
					okG := false
					allInstrs(g, func(i2 ssa.Instruction) {
						r2, isR := i2.(*ssa.Return)
						if !isR || len(r2.Results) != 1 {
							return
						}
						gf, _ := returnedStructFields(r2.Results[0])
						if pv, isP := gf["Coeffs"].(*ssa.Parameter); isP {
							if pi := paramIndex(g, pv); pi >= 0 && pi < len(c.Call.Args) && c.Call.Args[pi] == ssa.Value(coeffs) {
								okG = true
							}
						}
					})
					if okG {
						return
					}
				}
			}
			okAll = false
		})
		r.Check(okAll && rets > 0, "R4.8", key, w.Pos(fn.Pos()), "Coeffs is the parameter", "the constraint returned does not carry the coefficient list it was given (dropped or replaced on some path): a pseudo-boolean constraint is then read as a plain clause / cardinality constraint over all its literals")
	}
	if n == 0 {
		r.Unk("R4.8", "constructors", "-", "no constructor of package maxsat takes a coefficient list")
	}
}

// returnedStructFields: the values stored into the fields of the struct value v (a load of a local composite literal).
func returnedStructFields(v ssa.Value) (map[string]ssa.Value, bool) {
	out := map[string]ssa.Value{}
	ld, ok := v.(*ssa.UnOp)
	if !ok || ld.Op != token.MUL {
		return out, false
	}
	al, ok := ld.X.(*ssa.Alloc)
	if !ok {
		return out, false
	}
	for _, ref := range *al.Referrers() {
		fa, ok := ref.(*ssa.FieldAddr)
		if !ok {
			continue
		}
		_, name, _, okF := fieldOf(fa)
		if !okF {
			continue
		}
		for _, r2 := range *fa.Referrers() {
			if st, ok := r2.(*ssa.Store); ok && st.Addr == ssa.Value(fa) {
				out[name] = st.Val
			}
		}
	}
	return out, true
}

// ---------- R4.9: maxsat.New encodes every constraint it is handed ----------

func ruleR4_9(w *World, r *Report) {
	r.Rule("R4.9", "in maxsat.New every iteration of the loop over the constraints reaches the call that builds the solver constraint: no constraint is skipped (a degree <= 0 is not `trivially true` before the normaliser has moved negative coefficients to the other side)", 1)
	fn := w.Func("maxsat", "New")
	if fn == nil {
		r.Unk("R4.9", "maxsat.New", "-", "function not found")
		return
	}
	var build *ssa.Call
	for _, ci := range callsIn(fn) {
		if c, ok := ci.(*ssa.Call); ok && typeShort(c.Type()) == "solver.PBConstr" && len(c.Call.Args) == 3 {
			build = c
		}
	}
	key := "maxsat.New encodes every constraint"
	if build == nil {
		r.Unk("R4.9", key, w.Pos(fn.Pos()), "no call producing a solver.PBConstr found")
		return
	}
	var header *ssa.BasicBlock
	for _, h := range loopHeaders(fn) {
		if loopBlocks(fn, h)[build.Block()] && (header == nil || loopBlocks(fn, h)[header]) {
			header = h
		}
	}
	if header == nil {
		r.Unk("R4.9", key, w.InstrPos(build), "the constraint is not built inside a loop")
		return
	}
	body := loopBlocks(fn, header)
	// a path from the body entry back to the header that avoids the block of the call
	start := header.Succs[0]
	if !body[start] {
		start = header.Succs[1]
	}
	seen := map[*ssa.BasicBlock]bool{}
	skip := ""
	var dfs func(b *ssa.BasicBlock)
	dfs = func(b *ssa.BasicBlock) {
		if seen[b] || b == build.Block() || skip != "" {
			return
		}
		seen[b] = true
		for _, s := range b.Succs {
			if s == header {
				skip = w.InstrPos(b.Instrs[len(b.Instrs)-1])
				return
			}
			if body[s] {
				dfs(s)
			}
		}
	}
	dfs(start)
	r.Check(skip == "", "R4.9", key, w.InstrPos(build), "the build call is on every path of an iteration", "an iteration can go on to the next constraint (from "+skip+") without building the current one: the constraint is silently dropped (and its variables are never registered)")
}

// ---------- R5.9: a restart retracts to the top level before the search is entered again ----------

func ruleR5_9(w *World, r *Report) {
	r.Rule("R5.9", "a search loop that gives up for a restart (returns Indet) has retracted the bindings above the top level in the same step; where it leaves that to its caller, every function that calls the search again in a loop does it (Solve, CountModels and Enumerate all restart)", 2)
	indet, ok := w.statusConst("Indet")
	cleaner := levelCleaner(w)
	if !ok || cleaner == nil {
		r.Unk("R5.9", "anchors", "-", "Indet or the retraction function not found")
		return
	}
	an := map[*ssa.Function]bool{}
	for _, f := range conflictAnalysers(w) {
		an[f] = true
	}
	retractsAt := func(b *ssa.BasicBlock) bool {
		for _, ins := range b.Instrs {
			if c, ok := ins.(*ssa.Call); ok && w.staticCalleeIs(c, cleaner) {
				if k, isK := constInt(c.Call.Args[len(c.Call.Args)-1]); isK && k <= 1 {
					return true
				}
			}
		}
		return false
	}
	n := 0
	for _, fn := range w.LibFns() {
		if w.PkgName(fn) != "solver" {
			continue
		}
		callsAn := false
		for _, ci := range callsIn(fn) {
			for _, c := range w.Callees[ci] {
				if an[c] {
					callsAn = true
				}
			}
		}
		if !callsAn {
			continue
		}
		k := 0
		allInstrs(fn, func(ins ssa.Instruction) {
			ret, isRet := ins.(*ssa.Return)
			if !isRet || len(ret.Results) != 1 {
				return
			}
			if v, isK := constInt(ret.Results[0]); !isK || v != indet {
				return
			}
			n++
			k++
			key := fmt.Sprintf("%s restart #%d retracts to the top level", w.FuncName(fn), k)
			okHere := retractsAt(ret.Block())
			for _, d := range fn.Blocks {
				if d != ret.Block() && d.Dominates(ret.Block()) && retractsAt(d) && len(d.Succs) == 1 {
					okHere = true
				}
			}
			if okHere {
				r.OK("R5.9", key, w.InstrPos(ret), "retraction in the same step")
				return
			}
			// left to the callers: every loop that calls the search again must retract
			var missing []string
			var chk func(f *ssa.Function, depth int)
			seenF := map[*ssa.Function]bool{}
			chk = func(f *ssa.Function, depth int) {
				if seenF[f] || depth > 3 {
					return
				}
				seenF[f] = true
				for _, site := range w.Callers[f] {
					g := site.Parent()
					if w.PkgName(g) != "solver" {
						continue
					}
					if !inLoop(g, site.Block()) {
						chk(g, depth+1) // a wrapper (search): look at its callers
						continue
					}
					// the loop around the call: some block of it retracts
					found := false
					for _, h := range loopHeaders(g) {
						lb := loopBlocks(g, h)
						if !lb[site.Block()] {
							continue
						}
						for b := range lb {
							if retractsAt(b) {
								found = true
							}
						}
					}
					if !found {
						missing = append(missing, w.FuncName(g))
					}
				}
			}
			chk(fn, 0)
			if len(missing) > 0 {
				r.Bad("R5.9", key, w.InstrPos(ret), "the search gives up for a restart without retracting, and "+strings.Join(sortedStrings(dedupe(missing)), ", ")+" enter(s) it again without retracting either: the next search starts at the first decision level on top of the old trail, and what is derived from the list of decisions (the blocking clause of a model) is wrong")
			} else {
				r.OK("R5.9", key, w.InstrPos(ret), "retraction done by every loop that re-enters the search")
			}
		})
	}
	if n == 0 {
		r.Unk("R5.9", "restarts", "-", "no search loop returns Indet")
	}
}

// ---------- R5.10: a copy into lastModel has a destination ----------

func ruleR5_10(w *World, r *Report) {
	r.Rule("R5.10", "wherever the current bindings are copied into Solver.lastModel (`copy(s.lastModel, s.model)`), the same function has stored a slice made with the length of the bindings into lastModel before (a dominating make + store): copying into a nil or stale slice copies nothing", 3)
	n := 0
	for _, fn := range w.LibFns() {
		if w.PkgName(fn) != "solver" || len(fn.Blocks) == 0 {
			continue
		}
		k := 0
		for _, ci := range callsIn(fn) {
			c, ok := ci.(*ssa.Call)
			if !ok {
				continue
			}
			b, isB := c.Call.Value.(*ssa.Builtin)
			if !isB || b.Name() != "copy" {
				continue
			}
			if _, isLM := isFieldLoad(c.Call.Args[0], "solver.Solver", "lastModel"); !isLM {
				continue
			}
			n++
			k++
			key := fmt.Sprintf("%s copy #%d into the last model has a destination", w.FuncName(fn), k)
			okc := false
			for _, st := range storesToField(fn, "solver.Solver", "lastModel") {
				if _, isMk := st.Val.(*ssa.MakeSlice); isMk && instrDominates(st, c) {
					okc = true
				}
			}
			r.Check(okc, "R5.10", key, w.InstrPos(c), "a make stored into lastModel dominates the copy",
				"the bindings are copied into lastModel although this function has not allocated it: on a fresh solver the copy is a no-op, lastModel stays nil (or stale), and the count of models / the model delivered is computed from nothing")
		}
	}
	if n == 0 {
		r.Unk("R5.10", "copies into lastModel", "-", "no copy into Solver.lastModel found")
	}
}

// ---------- R6.6: the learned clause is a copy of the list the analysis worked on ----------

func ruleR6_6(w *World, r *Report) {
	r.Rule("R6.6", "the clause learned by the analyser is built from the very list that was sorted and minimised (the list handed to the minimiser, cut at the size it returned), not from another view of the scratch buffer: a list that outgrew the buffer lives in a new array", 1)
	n := 0
	for _, an := range conflictAnalysers(w) {
		// the minimiser: a call returning int that is handed a []Lit and whose result cuts a []Lit
		for _, ci := range callsIn(an) {
			mc, ok := ci.(*ssa.Call)
			if !ok || typeShort(mc.Type()) != "int" || mc.Call.StaticCallee() == nil || !w.InModule(w.unwrap(mc.Call.StaticCallee())) {
				continue
			}
			var list ssa.Value
			for _, a := range mc.Call.Args {
				if typeShort(a.Type()) == "[]solver.Lit" {
					list = a
				}
			}
			if list == nil {
				continue
			}
			// slices cut at the result
			for _, ref := range *mc.Referrers() {
				sl, isSl := ref.(*ssa.Slice)
				if !isSl || sl.High != ssa.Value(mc) {
					continue
				}
				n++
				key := fmt.Sprintf("%s learned clause #%d is cut from the minimised list", w.FuncName(an), n)
				r.Check(sl.X == list || sameLoad(sl.X, list), "R6.6", key, w.InstrPos(sl), "same list as the one minimised",
					"the learned clause is cut from another slice than the one that was sorted and minimised ("+chainOf(sl.X)+"): when the literal list outgrew the scratch buffer it was moved to a new array, and the clause stored and written to the certificate is made of stale literals - it is not implied by the formula")
			}
		}
	}
	if n == 0 {
		r.Unk("R6.6", "learned clause", "-", "no list cut at the size returned by a minimiser in a conflict analyser")
	}
}

// ---------- R6.7: a learned clause handed to the database is always stored ----------

func ruleR6_7(w *World, r *Report) {
	r.Rule("R6.7", "a function that adds a clause to the learned list does so on every path: it has no return before the store (the caller uses the clause as the reason of a literal whether or not it was kept, and the certificate must contain every clause later lines rest on)", 1)
	n := 0
	for _, fn := range w.LibFns() {
		if w.PkgName(fn) != "solver" {
			continue
		}
		for _, gs := range growthSites(fn) {
			if gs.Field != "solver.watcherList.learned" {
				continue
			}
			n++
			key := w.FuncName(fn) + " stores the learned clause on every path"
			var bad []string
			allInstrs(fn, func(ins ssa.Instruction) {
				if ret, ok := ins.(*ssa.Return); ok && ret.Block() != fn.Recover && !instrDominates(gs.Store, ret) {
					bad = append(bad, w.InstrPos(ret))
				}
			})
			r.Check(len(bad) == 0, "R6.7", key, w.InstrPos(gs.Store), "the store dominates every return",
				"the function can return (at "+strings.Join(sortedStrings(dedupe(bad)), ", ")+") without having stored the clause: the search still uses it as the reason of the literal it asserts, while it is neither in the database nor in the certificate - later certificate lines do not follow by unit propagation")
		}
	}
	if n == 0 {
		r.Unk("R6.7", "adders", "-", "no function grows the learned list")
	}
}

// ---------- R8.11: every certificate line goes through the RUP test ----------

func ruleR8_11(w *World, r *Report) {
	r.Rule("R8.11", "in the certificate readers, an iteration that has parsed a line goes on to the next line only through the RUP test of that line: no shortcut skips the test (a unit line whose variable is already bound may be the negation of a unit clause)", 2)
	rup := rupTest(w)
	if rup == nil {
		r.Unk("R8.11", "RUP test", "-", "not found")
		return
	}
	n := 0
	for _, fn := range w.LibFns() {
		if w.PkgName(fn) != "explain" {
			continue
		}
		wraps := rupWrappers(w, rup)
		if _, isW := wraps[fn]; isW {
			continue
		}
		// one obligation per entry point: a per-line helper shared by several of them answers for each
		var names []string
		for _, ce := range certEntries(w, rup) {
			if ce.core == fn {
				names = append(names, ce.name(w))
			}
		}
		if len(names) == 0 {
			names = []string{w.FuncName(fn)}
		}
		for _, ci := range callsIn(fn) {
			rc, ok := ci.(*ssa.Call)
			if !ok || !inLoop(fn, rc.Block()) {
				continue
			}
			if _, viaW := wraps[rc.Call.StaticCallee()]; !w.staticCalleeIs(rc, rup) && !viaW {
				continue
			}
			if _, viaW := wraps[rc.Call.StaticCallee()]; viaW {
				// the wrapper parses and tests in one step: every line handed to it is tested
				for _, nm := range names {
					n++
					r.OK("R8.11", nm+" tests every line it parsed", w.InstrPos(rc), "lines are parsed and tested in one step by "+w.FuncName(rc.Call.StaticCallee()))
				}
				continue
			}
			n += len(names)
			// the clause tested: its definition starts the obligation
			clause := rc.Call.Args[len(rc.Call.Args)-1]
			def, _ := clause.(ssa.Instruction)
			if ex, isEx := clause.(*ssa.Extract); isEx {
				def, _ = ex.Tuple.(ssa.Instruction)
			}
			var header *ssa.BasicBlock
			for _, h := range loopHeaders(fn) {
				if loopBlocks(fn, h)[rc.Block()] && (header == nil || loopBlocks(fn, h)[header]) {
					header = h
				}
			}
			if def == nil || header == nil {
				for _, nm := range names {
					r.Unk("R8.11", nm+" tests every line it parsed", w.InstrPos(rc), "the parsed line or the loop was not identified")
				}
				continue
			}
			body := loopBlocks(fn, header)
			// a path from the definition of the clause back to the header that avoids the block of the test
			seen := map[*ssa.BasicBlock]bool{}
			skip := ""
			var dfs func(b *ssa.BasicBlock)
			dfs = func(b *ssa.BasicBlock) {
				if seen[b] || skip != "" {
					return
				}
				seen[b] = true
				// `clause, ok, err := certClause(line); if !ok { continue }`: the parse itself says that the line holds no
				// clause; the edge taken when that flag is false is not a skipped test
				exempt := -1
				if iff, isIf := b.Instrs[len(b.Instrs)-1].(*ssa.If); isIf {
					cond, falseEdge := iff.Cond, 1
					if u, isU := cond.(*ssa.UnOp); isU && u.Op == token.NOT {
						cond, falseEdge = u.X, 0
					}
					if ex, isEx := cond.(*ssa.Extract); isEx && ssa.Instruction(ex.Tuple.(ssa.Instruction)) == def {
						exempt = falseEdge
					}
				}
				for si, s := range b.Succs {
					if s == rc.Block() || si == exempt {
						continue
					}
					if s == header {
						// leaving on an error of the parse is fine only when it returns; reaching the header is a skip,
						// unless the path passed the error test of the parse (err != nil leads to a return, not here)
						skip = w.InstrPos(b.Instrs[len(b.Instrs)-1])
						return
					}
					if body[s] {
						dfs(s)
					}
				}
			}
			if def.Block() != rc.Block() {
				dfs(def.Block())
			}
			for _, nm := range names {
				r.Check(skip == "", "R8.11", nm+" tests every line it parsed", w.InstrPos(rc), "every path from the parse of a line to the next line passes the test",
					"a line that was parsed can be passed over (from "+skip+") without the RUP test: a line that does not follow from the problem (the negation of one of its unit clauses) is accepted, and a satisfiable problem gets a valid certificate")
			}
		}
	}
	if n == 0 {
		r.Unk("R8.11", "certificate readers", "-", "no loop of package explain calls the RUP test")
	}
}

// ---------- R12.5: the numbering tables keep no scratch list ----------

func ruleR12_5(w *World, r *Report) {
	r.Rule("R12.5", "the clause translation keeps the literals of the clause it is building in a local of the activation: no function of package bf stores a slice into a field of the numbering tables (the translation is recursive; a buffer kept there is overwritten by the nested call)", 0)
	m, _ := bfOf(w)
	if m.err != "" {
		r.Unk("R12.5", "numbering tables", "-", m.err)
		return
	}
	var bad []string
	for _, fn := range m.fns {
		allInstrs(fn, func(ins ssa.Instruction) {
			st, ok := ins.(*ssa.Store)
			if !ok {
				return
			}
			o, f, _, okF := fieldOf(st.Addr)
			if !okF || o != "bf.vars" {
				return
			}
			if _, isSlice := st.Val.Type().Underlying().(*types.Slice); isSlice {
				bad = append(bad, fmt.Sprintf("field %s is stored at %s", f, w.InstrPos(st)))
			}
		})
	}
	if len(bad) > 0 {
		r.Bad("R12.5", "bf.vars holds no scratch list", "-", strings.Join(dedupe(bad), "; ")+": a disjunction nested inside a conjunct of another disjunction reuses the buffer and overwrites the literals the outer one has collected, so the clauses written are not those of the formula")
	} else {
		r.OK("R12.5", "bf.vars holds no scratch list", "-", "no slice is stored into a field of the numbering tables")
	}
}

// ---------- R15.8: the clause index read for a neighbour is at the neighbour's position ----------

func ruleR15_8(w *World, r *Report) {
	r.Rule("R15.8", "in DetectAtMostOne, where the clause index of a neighbour is read from the list paired with the list of neighbours, the position read is the position of that neighbour: the index of the loop over the neighbours (not a counter advanced on some paths only)", 1)
	fn := w.Func("solver", "Problem.DetectAtMostOne")
	if fn == nil {
		r.Unk("R15.8", "solver.(*Problem).DetectAtMostOne", "-", "method not found")
		return
	}
	n := 0
	allInstrs(fn, func(ins ssa.Instruction) {
		// a read T2[L][J] where T2 is a table of []int lists
		ld, ok := ins.(*ssa.UnOp)
		if !ok || ld.Op != token.MUL || typeShort(ld.Type()) != "int" {
			return
		}
		ia, ok := ld.X.(*ssa.IndexAddr)
		if !ok {
			return
		}
		inner, ok := ia.X.(*ssa.UnOp)
		if !ok || inner.Op != token.MUL || typeShort(inner.Type()) != "[]int" {
			return
		}
		ia2, ok := inner.X.(*ssa.IndexAddr)
		if !ok || typeShort(ia2.X.Type()) != "[][]int" {
			return
		}
		n++
		key := fmt.Sprintf("(*solver.Problem).DetectAtMostOne paired read #%d", n)
		j := ia.Index
		// J is the index of a loop over a list of literals selected by the same key
		okJ := fullRangeIndex(j, func(b ssa.Value) bool {
			return isLenOf(b, func(x ssa.Value) bool {
				l2, isL := x.(*ssa.UnOp)
				if !isL || l2.Op != token.MUL {
					return typeShort(x.Type()) == "[]solver.Lit"
				}
				if ia3, isIA := l2.X.(*ssa.IndexAddr); isIA {
					return ia3.Index == ia2.Index || typeShort(x.Type()) == "[]solver.Lit"
				}
				return typeShort(x.Type()) == "[]solver.Lit"
			})
		})
		r.Check(okJ, "R15.8", key, w.InstrPos(ld), "position = index of the loop over the neighbours",
			"the clause index is read at a position that is not the index of the loop over the neighbours (a hand-kept counter): after a neighbour is skipped the two lists are read out of step, the clause of another neighbour is queued for removal and the clause that should go stays - the rewritten problem has other models")
	})
	if n == 0 {
		r.OK("R15.8", "(*solver.Problem).DetectAtMostOne paired reads", w.Pos(fn.Pos()), "no read of a clause index from a paired list")
	}
}

// ---------- R2.11: after replacing a falsified watcher the re-watching loop goes on ----------

func ruleR2_11(w *World, r *Report) {
	r.Rule("R2.11", "in a function that moves the watch of a cardinality / pseudo-boolean constraint from a falsified literal to another one inside a loop (a removal from one watch list and an append to another in the same iteration), that iteration goes on to the loop test: it does not return after the first replacement (several watched literals can be falsified by one batch of propagations)", 1)
	n := 0
	for _, fn := range w.LibFns() {
		if w.PkgName(fn) != "solver" || len(fn.Blocks) == 0 {
			continue
		}
		for _, h := range loopHeaders(fn) {
			body := loopBlocks(fn, h)
			for b := range body {
				var appendSt *ssa.Store
				removes := false
				for _, ins := range b.Instrs {
					st, ok := ins.(*ssa.Store)
					if !ok || !strings.Contains(chainOf(st.Addr), ".wlistPb") {
						continue
					}
					if c, isC := st.Val.(*ssa.Call); isC {
						if bi, isB := c.Call.Value.(*ssa.Builtin); isB && bi.Name() == "append" {
							appendSt = st
							continue
						}
						removes = true
					}
					if _, isSl := st.Val.(*ssa.Slice); isSl {
						removes = true
					}
				}
				if appendSt == nil || !removes {
					continue
				}
				// innermost loop only
				innermost := true
				for _, h2 := range loopHeaders(fn) {
					if h2 != h && body[h2] && loopBlocks(fn, h2)[b] {
						innermost = false
					}
				}
				if !innermost {
					continue
				}
				n++
				key := fmt.Sprintf("%s watch replacement #%d goes on", w.FuncName(fn), n)
				// from b, without passing the header, no return is reachable
				seen := map[*ssa.BasicBlock]bool{}
				leak := ""
				var dfs func(x *ssa.BasicBlock)
				dfs = func(x *ssa.BasicBlock) {
					if seen[x] || leak != "" {
						return
					}
					seen[x] = true
					if ret, ok := x.Instrs[len(x.Instrs)-1].(*ssa.Return); ok {
						leak = w.InstrPos(ret)
						return
					}
					for _, s := range x.Succs {
						if s != h {
							dfs(s)
						}
					}
				}
				dfs(b)
				r.Check(leak == "", "R2.11", key, w.InstrPos(appendSt), "the iteration returns to the loop test",
					"after one falsified watcher was replaced the function returns (at "+leak+") instead of looking at the remaining watched positions: a constraint with two watched literals falsified in the same batch stays under-watched and is not revisited when it becomes violated")
			}
		}
	}
	// a replacement in a block that is dominated by a loop header but no longer part of the loop (it cannot reach the
	// header again: it returns)
	for _, fn := range w.LibFns() {
		if w.PkgName(fn) != "solver" || len(fn.Blocks) == 0 {
			continue
		}
		for _, b := range fn.Blocks {
			var appendSt *ssa.Store
			removes := false
			for _, ins := range b.Instrs {
				st, ok := ins.(*ssa.Store)
				if !ok || !strings.Contains(chainOf(st.Addr), ".wlistPb") {
					continue
				}
				if c, isC := st.Val.(*ssa.Call); isC {
					if bi, isB := c.Call.Value.(*ssa.Builtin); isB && bi.Name() == "append" {
						appendSt = st
						continue
					}
					removes = true
				}
			}
			if appendSt == nil || !removes || inLoop(fn, b) {
				continue
			}
			for _, h := range loopHeaders(fn) {
				if h.Dominates(b) && h != b {
					n++
					r.Bad("R2.11", fmt.Sprintf("%s watch replacement #%d goes on", w.FuncName(fn), n), w.InstrPos(appendSt),
						"after one falsified watcher was replaced the function leaves the loop for good instead of looking at the remaining watched positions: a constraint with two watched literals falsified in the same batch stays under-watched and is not revisited when it becomes violated")
					break
				}
			}
		}
	}
	if n == 0 {
		r.Unk("R2.11", "watch replacement", "-", "no loop of package solver replaces a watcher of the cardinality / pseudo-boolean watch lists")
	}
}
