package main

import (
	"fmt"
	"go/token"
	"go/types"
	"sort"
	"strings"

	"golang.org/x/tools/go/ssa"
)

// pathx: a small path-sensitive explorer over the SSA control-flow graph (part of engine E5).
// A state carries the phi choices of the path and a set of facts keyed by canonical value names
// ("load:<address chain>", "len:<..>", register names). Branches on `x == c`, `x != c`, `x == nil`, `!x` refine
// the facts; contradicting edges are infeasible. States are not merged; a (block, state) pair is visited once.

type pstate struct {
	phi   map[*ssa.Phi]ssa.Value
	facts map[string]string // key -> "=<const>" | "!=<const>" | free-form values set by the client
	// coarse: only boolean phi choices and client facts distinguish states, and opaque conditions are not
	// remembered. Sound for clients whose verdict depends on boolean flags and their own facts only.
	coarse bool
}

func (s *pstate) clone() *pstate {
	n := &pstate{phi: make(map[*ssa.Phi]ssa.Value, len(s.phi)), facts: make(map[string]string, len(s.facts)), coarse: s.coarse}
	for k, v := range s.phi {
		n.phi[k] = v
	}
	for k, v := range s.facts {
		n.facts[k] = v
	}
	return n
}

func (s *pstate) key() string {
	var ks []string
	for k, v := range s.facts {
		ks = append(ks, k+v)
	}
	for p, v := range s.phi {
		if s.coarse {
			if b, ok := p.Type().Underlying().(*types.Basic); !ok || b.Kind() != types.Bool {
				continue
			}
		}
		ks = append(ks, p.Name()+"<-"+v.Name())
	}
	sort.Strings(ks)
	return strings.Join(ks, ";")
}

// resolve follows the phi choices of the path.
func (s *pstate) resolve(v ssa.Value) ssa.Value {
	for i := 0; i < 10; i++ {
		p, ok := v.(*ssa.Phi)
		if !ok {
			return v
		}
		c, ok := s.phi[p]
		if !ok {
			return v
		}
		v = c
	}
	return v
}

// vkey is the canonical name of a value under the path.
func (s *pstate) vkey(v ssa.Value) string {
	v = s.resolve(v)
	switch x := v.(type) {
	case *ssa.UnOp:
		if x.Op == token.MUL {
			return "load:" + chainOf(x.X)
		}
	case *ssa.Call:
		if b, ok := x.Call.Value.(*ssa.Builtin); ok && b.Name() == "len" {
			return "len:" + s.vkey(x.Call.Args[0])
		}
	case *ssa.Field:
		return "load:" + chainOf(x)
	}
	return "v:" + v.Name()
}

// nilness of a slice/pointer/map/chan value under the path: 1 nil, 2 non-nil, 0 unknown.
func (s *pstate) nilness(v ssa.Value) int {
	v = s.resolve(v)
	switch x := v.(type) {
	case *ssa.Const:
		if x.IsNil() {
			return 1
		}
	case *ssa.MakeSlice, *ssa.MakeMap, *ssa.MakeChan, *ssa.Alloc, *ssa.MakeClosure, *ssa.MakeInterface:
		return 2
	case *ssa.Call:
		if b, ok := x.Call.Value.(*ssa.Builtin); ok && b.Name() == "append" {
			if len(x.Call.Args) == 2 {
				return 2 // we only meet appends of at least one element
			}
		}
	case *ssa.Slice:
		return s.nilness(x.X)
	}
	// the result of a function every return of which hands back a fresh object (`coeffs = unitCoeffs(n)`), or nil
	if c, ok := v.(*ssa.Call); ok {
		if f := c.Call.StaticCallee(); f != nil && len(f.Blocks) > 0 && f.Signature.Results().Len() == 1 {
			all := 0
			allInstrs(f, func(ins ssa.Instruction) {
				ret, isRet := ins.(*ssa.Return)
				if !isRet || len(ret.Results) != 1 || all < 0 {
					return
				}
				k := 0
				switch rv := ret.Results[0].(type) {
				case *ssa.MakeSlice, *ssa.MakeMap, *ssa.MakeChan, *ssa.Alloc:
					k = 2
				case *ssa.Const:
					if rv.IsNil() {
						k = 1
					}
				}
				switch {
				case k == 0:
					all = -1
				case all == 0:
					all = k
				case all != k:
					all = -1
				}
			})
			if all > 0 {
				return all
			}
		}
	}
	switch s.facts[s.vkey(v)] {
	case "=nil":
		return 1
	case "!=nil":
		return 2
	}
	return 0
}

// assume refines the state with cond == val; returns false when infeasible.
func (s *pstate) assume(cond ssa.Value, val bool) bool {
	cond = s.resolve(cond)
	switch x := cond.(type) {
	case *ssa.UnOp:
		if x.Op == token.NOT {
			return s.assume(x.X, !val)
		}
	case *ssa.Const:
		if x.Value != nil && (x.Value.String() == "true" || x.Value.String() == "false") {
			return (x.Value.String() == "true") == val
		}
	case *ssa.BinOp:
		if x.Op != token.EQL && x.Op != token.NEQ {
			break
		}
		eq := (x.Op == token.EQL) == val
		a, b := s.resolve(x.X), s.resolve(x.Y)
		if _, isC := a.(*ssa.Const); isC {
			a, b = b, a
		}
		kb, isC := b.(*ssa.Const)
		if !isC {
			break
		}
		if kb.IsNil() {
			switch s.nilness(a) {
			case 1:
				return eq
			case 2:
				return !eq
			}
			if eq {
				s.facts[s.vkey(a)] = "=nil"
			} else {
				s.facts[s.vkey(a)] = "!=nil"
			}
			return true
		}
		if ka, isCa := a.(*ssa.Const); isCa && ka.Value != nil && kb.Value != nil {
			return (ka.Value.String() == kb.Value.String()) == eq
		}
		if kb.Value == nil {
			break
		}
		c := kb.Value.String()
		k := s.vkey(a)
		old := s.facts[k]
		// a fact is "=c" or "!=c1,c2,..." (the values excluded so far)
		excluded := func() []string {
			if strings.HasPrefix(old, "!=") {
				return strings.Split(old[2:], ",")
			}
			return nil
		}
		if eq {
			if strings.HasPrefix(old, "=") && old != "="+c {
				return false
			}
			for _, e := range excluded() {
				if e == c {
					return false
				}
			}
			s.facts[k] = "=" + c
		} else {
			if old == "="+c {
				return false
			}
			if !strings.HasPrefix(old, "=") {
				ex := excluded()
				have := false
				for _, e := range ex {
					if e == c {
						have = true
					}
				}
				if !have {
					ex = append(ex, c)
				}
				s.facts[k] = "!=" + strings.Join(ex, ",")
			}
		}
		return true
	}
	// opaque condition: remember its truth value so that a repeated test of the same value is consistent
	if s.coarse {
		return true
	}
	k := "cond:" + s.vkey(cond)
	want := "=false"
	if val {
		want = "=true"
	}
	if old, ok := s.facts[k]; ok && old != want {
		return false
	}
	s.facts[k] = want
	return true
}

// forget drops the facts whose key contains the given fragment (a cell was overwritten).
func (s *pstate) forget(fragment string) {
	for k := range s.facts {
		if strings.Contains(k, fragment) {
			delete(s.facts, k)
		}
	}
}

// explore walks every path from start; visit is called for each instruction with the current state and may
// mutate it. stop(block) ends a path (e.g. the loop header: one iteration only).
func explore(start *ssa.BasicBlock, init *pstate, stop func(b *ssa.BasicBlock) bool, visit func(ins ssa.Instruction, st *pstate)) (pairs int, truncated bool) {
	return exploreEdges(start, init, stop, visit, nil)
}

// exploreEdges is explore with a hook called for every feasible edge taken (also for edges into stopped blocks);
// incoming(to, from, v) resolves what a phi of `to` receives on that edge.
func exploreEdges(start *ssa.BasicBlock, init *pstate, stop func(b *ssa.BasicBlock) bool, visit func(ins ssa.Instruction, st *pstate), onEdge func(from, to *ssa.BasicBlock, st *pstate)) (pairs int, truncated bool) {
	type item struct {
		b    *ssa.BasicBlock
		prev *ssa.BasicBlock
		st   *pstate
	}
	seen := map[string]bool{}
	work := []item{{start, nil, init}}
	for len(work) > 0 {
		it := work[len(work)-1]
		work = work[:len(work)-1]
		st := it.st.clone()
		// phi choices on entry
		if it.prev != nil {
			pi := -1
			for i, p := range it.b.Preds {
				if p == it.prev {
					pi = i
				}
			}
			for _, ins := range it.b.Instrs {
				phi, ok := ins.(*ssa.Phi)
				if !ok {
					break
				}
				if pi >= 0 {
					st.phi[phi] = it.st.resolve(phi.Edges[pi])
				}
			}
		}
		k := fmt.Sprintf("%d#%s", it.b.Index, st.key())
		if seen[k] {
			continue
		}
		seen[k] = true
		if len(seen) > 50000 {
			return len(seen), true
		}
		for _, ins := range it.b.Instrs {
			// (re-)executing the definition of a value makes what was known about its previous incarnation stale
			if v, ok := ins.(ssa.Value); ok {
				n := v.Name()
				delete(st.facts, "v:"+n)
				delete(st.facts, "cond:v:"+n)
				delete(st.facts, "len:v:"+n)
			}
			// a call of module code may change memory: facts about loads from anything but local variables go
			if c, ok := ins.(*ssa.Call); ok {
				if _, isB := c.Call.Value.(*ssa.Builtin); !isB {
					for k := range st.facts {
						if strings.HasPrefix(k, "load:") && !strings.HasPrefix(k, "load:alloc:") {
							delete(st.facts, k)
						}
					}
				}
			}
			visit(ins, st)
		}
		last := it.b.Instrs[len(it.b.Instrs)-1]
		if iff, ok := last.(*ssa.If); ok {
			for i, val := range []bool{true, false} {
				succ := it.b.Succs[i]
				s2 := st.clone()
				if !s2.assume(iff.Cond, val) {
					continue
				}
				if onEdge != nil {
					onEdge(it.b, succ, s2)
				}
				if stop != nil && stop(succ) {
					continue
				}
				work = append(work, item{succ, it.b, s2})
			}
		} else {
			for _, succ := range it.b.Succs {
				if onEdge != nil {
					onEdge(it.b, succ, st)
				}
				if stop != nil && stop(succ) {
					continue
				}
				work = append(work, item{succ, it.b, st.clone()})
			}
		}
	}
	return len(seen), false
}

// phiIncoming returns what phi (in block to) receives when control arrives from block from, resolved under st.
func phiIncoming(phi *ssa.Phi, from *ssa.BasicBlock, st *pstate) ssa.Value {
	for i, p := range phi.Block().Preds {
		if p == from {
			return st.resolve(phi.Edges[i])
		}
	}
	return nil
}
