package main

import (
	"fmt"
	"go/token"
	"strings"

	"golang.org/x/tools/go/ssa"
)

func init() {
	register(&property{
		ID:          "C14",
		Explanation: "structural clauses of the cutting-planes search loop only: (R14.1) a literal learned by conflict analysis is bound at the top level only after every binding above level 1 was retracted, a conflict while binding it leads to the function that concludes Unsat, and the decision heap is rebuilt before the next decision - in every search loop, so the pseudo-boolean loop treats learned facts exactly as the clause-learning loop does; (R14.2) the `no constraint can be learned / constraint is false` sentinel of the analyser leads to the Unsat conclusion; (R1.8) a learned constraint becomes the reason of the literals it propagates; (R1.4) a learned constraint dropped from the database is removed from the watch lists; (R9.1) the per-variable buffers of the strategy grow with the variable set.",
		NotDecided:  "everything arithmetic: cancelling addition, weakening, division, slack, choice of the backjump level, i.e. that learned constraints are implied and that verdict and optimum are unchanged. Most conceivable defects of the strategy are of that kind and are NOT detected by this check. A scratch differential run (DESIGN.md section 4, D30) shows that the strategy does panic and answer wrongly on the unchanged tree; only the unbounded trail walk behind the panics is reported (R14.4, known finding), the wrong answers are not.",
		Rules:       []ruleFn{ruleR14_1, ruleR14_2, ruleR14_3, ruleR14_4, ruleR14_5, ruleR14_6, ruleR14_7, ruleR1_8, ruleR1_11, ruleR1_4, ruleR9_1, ruleR2_9},
	})
}

// R14.1: top-level binding protocol of learned literals, in every search loop.
func ruleR14_1(w *World, r *Report) {
	r.Rule("R14.1", "in every search loop, a literal taken from a conflict analyser is bound at level 1 only after a call retracting all bindings above level 1, a conflict returned by that binding leads to the Unsat-concluding function, and the decision heap is rebuilt before the next decision", 2)
	an := map[*ssa.Function]bool{}
	for _, f := range conflictAnalysers(w) {
		an[f] = true
	}
	cleaner := levelCleaner(w)
	unsat, _ := w.statusConst("Unsat")
	// concluders: functions storing the constant Unsat into the status
	concl := map[*ssa.Function]bool{}
	for _, fn := range w.Fns {
		for _, st := range storesToField(fn, "solver.Solver", "status") {
			if v, ok := constInt(st.Val); ok && v == unsat && fn.Signature.Results().Len() == 1 {
				concl[fn] = true
			}
		}
	}
	// heap rebuilders: methods of Solver without parameters that call the queue's build
	rebuild := map[*ssa.Function]bool{}
	for _, fn := range w.Fns {
		if w.PkgName(fn) != "solver" || fn.Signature.Recv() == nil || fn.Signature.Params().Len() != 0 {
			continue
		}
		for _, ci := range callsIn(fn) {
			for _, c := range w.Callees[ci] {
				if strings.HasSuffix(w.FuncName(c), "(*solver.queue).build") {
					rebuild[fn] = true
				}
			}
		}
	}
	if cleaner == nil || len(an) == 0 || len(concl) == 0 || len(rebuild) == 0 {
		r.Unk("R14.1", "anchors", "-", fmt.Sprintf("level cleaner %v, analysers %d, concluders %d, heap rebuilders %d", cleaner != nil, len(an), len(concl), len(rebuild)))
		return
	}
	n := 0
	for _, ub := range learnedUnitBindings(w, an) {
		{
			fn, call := ub.holder, ub.call
			if typeShort(call.Type()) != "*solver.Clause" {
				continue
			}
			n++
			key := fmt.Sprintf("%s top-level binding #%d of a learned literal", w.FuncName(ub.loopFn), n)
			var bad []string
			// (i) retraction to level 1 dominates
			retracted := false
			for _, cj := range callsIn(fn) {
				if w.staticCalleeIs(cj, cleaner) && instrDominates(cj, call) {
					args := cj.Common().Args
					if v, ok := constInt(args[len(args)-1]); ok && v == 1 {
						// between the retraction and the binding nothing may bind above level 1: same block suffices here
						if cj.Block() == call.Block() {
							retracted = true
						}
					}
				}
			}
			if !retracted {
				bad = append(bad, "bindings above level 1 are not retracted (in the same step) before the literal is bound at level 1: the trail is no longer ordered by level, and later retractions leave stale bindings")
			}
			// (ii) conflict => concluder
			concludes := false
			leadsToConcluder := func(tb *ssa.BasicBlock) bool {
				for _, ins := range tb.Instrs {
					if c2, ok := ins.(*ssa.Call); ok {
						for _, c := range w.Callees[c2] {
							if concl[c] {
								return true
							}
						}
					}
				}
				return false
			}
			if ub.holder == ub.loopFn {
				for _, ref := range *call.Referrers() {
					bo, ok := ref.(*ssa.BinOp)
					if !ok || bo.Op != token.NEQ || !isNilConst(bo.Y) {
						// the result may first be stored into the loop's conflict variable (phi): follow one phi
						continue
					}
					for _, r2 := range *bo.Referrers() {
						if iff, ok := r2.(*ssa.If); ok && leadsToConcluder(iff.Block().Succs[0]) {
							concludes = true
						}
					}
				}
			} else {
				// the helper answers a boolean made of `binding == nil` / `binding != nil` (constants on its early exits);
				// the loop tests that answer and concludes Unsat on the outcome that means conflict
				okMeansTrue, known := false, false
				allInstrs(fn, func(ins ssa.Instruction) {
					ret, isRet := ins.(*ssa.Return)
					if !isRet || len(ret.Results) != 1 {
						return
					}
					var look func(v ssa.Value)
					look = func(v ssa.Value) {
						switch x := v.(type) {
						case *ssa.Phi:
							for _, e := range x.Edges {
								look(e)
							}
						case *ssa.BinOp:
							if x.X == ssa.Value(call) && isNilConst(x.Y) && (x.Op == token.EQL || x.Op == token.NEQ) {
								okMeansTrue, known = x.Op == token.EQL, true
							}
						}
					}
					look(ret.Results[0])
				})
				if known {
					for _, ref := range *ub.site.Referrers() {
						cond, pol := ssa.Value(ub.site), true // pol: the tested value is true when the helper's answer is true
						var iffs []*ssa.If
						switch x := ref.(type) {
						case *ssa.If:
							iffs = append(iffs, x)
						case *ssa.UnOp:
							if x.Op == token.NOT {
								cond, pol = x, false
								for _, r2 := range *x.Referrers() {
									if iff, ok := r2.(*ssa.If); ok {
										iffs = append(iffs, iff)
									}
								}
							}
						}
						_ = cond
						for _, iff := range iffs {
							// the successor taken when the helper's answer means conflict
							answerTrueEdge := 0
							if !pol {
								answerTrueEdge = 1
							}
							conflictEdge := answerTrueEdge
							if okMeansTrue {
								conflictEdge = 1 - answerTrueEdge
							}
							if leadsToConcluder(iff.Block().Succs[conflictEdge]) {
								concludes = true
							}
						}
					}
				}
			}
			if !concludes {
				bad = append(bad, "a conflict found while binding the literal does not lead to the function that concludes Unsat")
			}
			// (iii) heap rebuilt before the next decision: a rebuild call reachable from the binding within the loop,
			// on every path from the binding to the next chooseLit-like call (a call returning Lit without arguments)
			fn, call = ub.loopFn, ub.site
			var header *ssa.BasicBlock
			for _, h := range loopHeaders(fn) {
				if loopBlocks(fn, h)[call.Block()] && (header == nil || loopBlocks(fn, h)[header]) {
					header = h
				}
			}
			if header != nil {
				missing := false
				exploreEdges(call.Block(), &pstate{phi: map[*ssa.Phi]ssa.Value{}, facts: map[string]string{}, coarse: true},
					func(b *ssa.BasicBlock) bool { return b == header || !loopBlocks(fn, header)[b] },
					func(ins ssa.Instruction, st *pstate) {
						if ins == ssa.Instruction(call) {
							st.facts["after"] = "yes"
							return
						}
						if st.facts["after"] != "yes" {
							return
						}
						c2, ok := ins.(*ssa.Call)
						if !ok {
							return
						}
						for _, c := range w.Callees[c2] {
							if rebuild[c] {
								st.facts["rebuilt"] = "yes"
							}
							// a decision: method returning Lit taking no argument
							if typeShort(c2.Type()) == "solver.Lit" && c.Signature.Params().Len() == 0 && st.facts["rebuilt"] != "yes" {
								missing = true
							}
						}
					}, nil)
				if missing {
					bad = append(bad, "the next decision can be taken without the decision heap having been rebuilt after the top-level binding: variables unbound by the retraction may be missing from the heap")
				}
			}
			if len(bad) > 0 {
				r.Bad("R14.1", key, w.InstrPos(call), strings.Join(bad, "; "))
			} else {
				r.OK("R14.1", key, w.InstrPos(call), "retract to level 1, bind, conclude Unsat on conflict, rebuild the heap")
			}
		}
	}
	if n < 2 {
		r.Unk("R14.1", "search loops", "-", fmt.Sprintf("%d top-level binding(s) of learned literals found, expected one per search loop", n))
	}
}

// R14.2: the analyser's failure sentinel leads to Unsat.
func ruleR14_2(w *World, r *Report) {
	r.Rule("R14.2", "where a search loop receives a decision level from the constraint-learning analyser, the value -1 (the learned constraint is false) is tested and leads to the Unsat-concluding function", 1)
	unsat, _ := w.statusConst("Unsat")
	concl := map[*ssa.Function]bool{}
	for _, fn := range w.Fns {
		for _, st := range storesToField(fn, "solver.Solver", "status") {
			if v, ok := constInt(st.Val); ok && v == unsat && fn.Signature.Results().Len() == 1 {
				concl[fn] = true
			}
		}
	}
	n := 0
	for _, fn := range w.Fns {
		if w.PkgName(fn) != "solver" {
			continue
		}
		for _, ci := range callsIn(fn) {
			call, ok := ci.(*ssa.Call)
			if !ok || len(w.Callees[call]) == 0 {
				continue
			}
			// an analyser returning a decLevel among its results
			var lvl *ssa.Extract
			for _, ref := range *call.Referrers() {
				if ex, ok := ref.(*ssa.Extract); ok && typeShort(ex.Type()) == "solver.decLevel" {
					lvl = ex
				}
			}
			isAn := false
			for _, c := range w.Callees[call] {
				for _, a := range conflictAnalysers(w) {
					if a == c {
						isAn = true
					}
				}
			}
			if lvl == nil || !isAn {
				continue
			}
			n++
			key := fmt.Sprintf("%s handles the analyser's failure level", w.FuncName(fn))
			ok2 := false
			for _, ref := range *lvl.Referrers() {
				bo, isB := ref.(*ssa.BinOp)
				if !isB || bo.Op != token.EQL {
					continue
				}
				if k, isK := constInt(bo.Y); !isK || k != -1 {
					continue
				}
				for _, r2 := range *bo.Referrers() {
					if iff, isIf := r2.(*ssa.If); isIf {
						for _, ins := range iff.Block().Succs[0].Instrs {
							if c2, isC := ins.(*ssa.Call); isC {
								for _, c := range w.Callees[c2] {
									if concl[c] {
										ok2 = true
									}
								}
							}
						}
					}
				}
			}
			r.Check(ok2, "R14.2", key, w.InstrPos(call), "level -1 leads to the Unsat conclusion",
				"the level -1 returned when the learned constraint is falsified at the top level is not turned into Unsat: the loop goes on with a negative level")
		}
	}
	if n == 0 {
		r.Unk("R14.2", "analyser with a level result", "-", "no call of an analyser returning a decision level")
	}
}
