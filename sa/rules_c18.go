package main

import (
	"fmt"
	"go/ast"
	"go/token"
	"go/types"
	"sort"
	"strconv"
	"strings"

	"golang.org/x/tools/go/ssa"
)

func init() {
	register(&property{
		ID: "C18",
		Explanation: "lexical well-formedness of what the DIMACS/OPB printers emit: (R18.1) in every printer function, text items emitted by a loop (string accumulation, writes to a writer/builder, slices handed to strings.Join) meet at a boundary that holds whitespace, so two tokens of the whitespace-tokenised formats are never glued together; " +
			"(R18.2) the clause count of every `p cnf` header is the sum of the trip counts of the loops that write one non-comment line each; (R18.3) every fixed token in the printers' constant texts is a token the corresponding parser compares against (or a sign accepted by strconv.Atoi).",
		NotDecided: "equality of models and costs after re-parsing; numeric values printed; the parser's reaction to each token.",
		Rules:      []ruleFn{ruleR18_1, ruleR18_2, ruleR18_3, ruleR18_4, ruleR18_5, ruleR18_6, ruleR18_7, ruleR18_8, ruleR18_9, ruleR18_10, ruleR18_11},
	})
}

// ---------- text templates ----------
//
// A template is a Go string in which three marker bytes stand for text that is not known statically:
//   mNum  an integer rendered in decimal ([+-]?[0-9]+ as produced by %d / strconv.Itoa)
//   mStr  unknown text that cannot contain a newline
//   mAny  unknown text that may contain newlines
// A string value is abstracted by a finite set of templates ("alts").

const (
	mNum = '\x00'
	mStr = '\x01'
	mAny = '\x02'
)

const maxAlts = 48

type textCtx struct {
	w       *World
	retMemo map[*ssa.Function][]string
	retBusy map[*ssa.Function]bool
	nlMemo  map[ssa.Value]int // 1 = in progress / no, 2 = yes
	nlFn    map[*ssa.Function]int
}

func newTextCtx(w *World) *textCtx {
	return &textCtx{w: w, retMemo: map[*ssa.Function][]string{}, retBusy: map[*ssa.Function]bool{}, nlMemo: map[ssa.Value]int{}, nlFn: map[*ssa.Function]int{}}
}

// stdCallee names a statically resolved callee outside the module: ("fmt","Sprintf"), ("strings","Builder.WriteString").
func stdCallee(c *ssa.CallCommon) (pkg, name string) {
	if c == nil || c.IsInvoke() {
		return "", ""
	}
	f := c.StaticCallee()
	if f == nil {
		return "", ""
	}
	obj, _ := f.Object().(*types.Func)
	if obj == nil || obj.Pkg() == nil {
		return "", ""
	}
	name = obj.Name()
	if sig, ok := obj.Type().(*types.Signature); ok && sig.Recv() != nil {
		if n := derefNamed(sig.Recv().Type()); n != nil {
			name = n.Obj().Name() + "." + name
		}
	}
	return obj.Pkg().Path(), name
}

// fmtVarargs resolves the []any built for a variadic call into the argument values (interface boxing removed).
func fmtVarargs(v ssa.Value) ([]ssa.Value, bool) {
	if v == nil {
		return nil, false
	}
	if isNilConst(v) {
		return nil, true
	}
	sl, ok := v.(*ssa.Slice)
	if !ok || sl.Low != nil || sl.High != nil {
		return nil, false
	}
	al, ok := sl.X.(*ssa.Alloc)
	if !ok {
		return nil, false
	}
	pt, ok := al.Type().Underlying().(*types.Pointer)
	if !ok {
		return nil, false
	}
	arr, ok := pt.Elem().Underlying().(*types.Array)
	if !ok || arr.Len() > 64 {
		return nil, false
	}
	out := make([]ssa.Value, arr.Len())
	for _, r := range *al.Referrers() {
		switch x := r.(type) {
		case *ssa.IndexAddr:
			idx, ok := constInt(x.Index)
			if !ok || idx < 0 || idx >= int64(len(out)) {
				return nil, false
			}
			for _, r2 := range *x.Referrers() {
				st, ok := r2.(*ssa.Store)
				if !ok || st.Addr != x {
					return nil, false
				}
				if out[idx] != nil {
					return nil, false
				}
				out[idx] = st.Val
			}
		case *ssa.Slice, *ssa.DebugRef:
		default:
			return nil, false
		}
	}
	for i, a := range out {
		if a == nil {
			return nil, false
		}
		if mi, ok := a.(*ssa.MakeInterface); ok {
			out[i] = mi.X
		}
	}
	return out, true
}

type fmtPiece struct {
	lit  string
	verb byte // 0 for a literal piece
	mods string
}

func parseFormat(f string) []fmtPiece {
	var out []fmtPiece
	lit := ""
	for i := 0; i < len(f); i++ {
		if f[i] != '%' {
			lit += string(f[i])
			continue
		}
		if i+1 < len(f) && f[i+1] == '%' {
			lit += "%"
			i++
			continue
		}
		j := i + 1
		for j < len(f) && strings.IndexByte("+-# 0123456789.*[]", f[j]) >= 0 {
			j++
		}
		if j >= len(f) {
			lit += f[i:]
			break
		}
		if lit != "" {
			out = append(out, fmtPiece{lit: lit})
			lit = ""
		}
		out = append(out, fmtPiece{verb: f[j], mods: f[i+1 : j]})
		i = j
	}
	if lit != "" {
		out = append(out, fmtPiece{lit: lit})
	}
	return out
}

func hasTextMethod(t types.Type) bool {
	for _, T := range []types.Type{t, types.NewPointer(t)} {
		ms := types.NewMethodSet(T)
		for i := 0; i < ms.Len(); i++ {
			switch ms.At(i).Obj().Name() {
			case "String", "Error", "Format", "GoString":
				return true
			}
		}
	}
	return false
}

func basicInfo(t types.Type) types.BasicInfo {
	if b, ok := t.Underlying().(*types.Basic); ok {
		return b.Info()
	}
	return 0
}

func altProduct(a, b []string) []string {
	var out []string
	seen := map[string]bool{}
	for _, x := range a {
		for _, y := range b {
			if s := x + y; !seen[s] {
				seen[s] = true
				out = append(out, s)
			}
		}
	}
	return out
}

func altUnion(a, b []string) []string {
	seen := map[string]bool{}
	var out []string
	for _, x := range append(append([]string{}, a...), b...) {
		if !seen[x] {
			seen[x] = true
			out = append(out, x)
		}
	}
	return out
}

func altCap(a []string) []string {
	if len(a) <= maxAlts {
		return a
	}
	for _, x := range a {
		if strings.ContainsAny(x, "\n"+string(rune(mAny))) {
			return []string{string(rune(mAny))}
		}
	}
	return []string{string(rune(mStr))}
}

func (t *textCtx) unknown(v ssa.Value) []string {
	if t.mayNL(v) {
		return []string{string(rune(mAny))}
	}
	return []string{string(rune(mStr))}
}

// verbText is the text a single formatting verb produces for arg.
func (t *textCtx) verbText(p fmtPiece, arg ssa.Value, busy map[ssa.Value]bool) []string {
	T := arg.Type()
	bi := basicInfo(T)
	scalar := bi&(types.IsInteger|types.IsFloat|types.IsBoolean) != 0
	if p.mods != "" {
		if scalar && !hasTextMethod(T) {
			return []string{string(rune(mStr))}
		}
		return t.unknown(arg)
	}
	switch {
	case bi&types.IsInteger != 0 && (p.verb == 'd' || (p.verb == 'v' && !hasTextMethod(T))):
		return []string{string(rune(mNum))}
	case bi&types.IsString != 0 && (p.verb == 's' || p.verb == 'v') && !hasTextMethod(T):
		return t.eval(arg, busy)
	case bi&types.IsBoolean != 0 && (p.verb == 't' || p.verb == 'v') && !hasTextMethod(T):
		return []string{"true", "false"}
	case p.verb == 'q' && bi&types.IsString != 0:
		return []string{"\"" + string(rune(mStr)) + "\""}
	case scalar && !hasTextMethod(T):
		return []string{string(rune(mStr))}
	}
	return []string{string(rune(mAny))}
}

// sprintf expands a constant format over resolved arguments.
func (t *textCtx) sprintf(format string, args []ssa.Value, busy map[ssa.Value]bool) []string {
	alts := []string{""}
	n := 0
	for _, p := range parseFormat(format) {
		if p.verb == 0 {
			alts = altProduct(alts, []string{p.lit})
			continue
		}
		if strings.ContainsAny(p.mods, "*[") || n >= len(args) {
			return []string{string(rune(mAny))}
		}
		alts = altCap(altProduct(alts, t.verbText(p, args[n], busy)))
		n++
	}
	return alts
}

// anyText renders a value the way fmt.Print would (used for Print/Println arguments).
func (t *textCtx) anyText(v ssa.Value, busy map[ssa.Value]bool) []string {
	return t.verbText(fmtPiece{verb: 'v'}, v, busy)
}

// eval abstracts a string-typed value by a set of templates.
func (t *textCtx) eval(v ssa.Value, busy map[ssa.Value]bool) []string {
	if busy == nil {
		busy = map[ssa.Value]bool{}
	}
	switch x := v.(type) {
	case *ssa.Const:
		if s, ok := constString(x); ok {
			return []string{s}
		}
	case *ssa.Phi:
		if busy[x] {
			return t.unknown(x)
		}
		busy[x] = true
		var out []string
		for _, e := range x.Edges {
			out = altUnion(out, t.eval(e, busy))
		}
		delete(busy, x)
		return altCap(out)
	case *ssa.BinOp:
		if x.Op == token.ADD {
			return altCap(altProduct(t.eval(x.X, busy), t.eval(x.Y, busy)))
		}
	case *ssa.MakeInterface:
		return t.anyText(x.X, busy)
	case *ssa.ChangeType:
		if basicInfo(x.X.Type())&types.IsString != 0 {
			return t.eval(x.X, busy)
		}
	case *ssa.Call:
		pkg, name := stdCallee(&x.Call)
		switch {
		case pkg == "fmt" && name == "Sprintf" && len(x.Call.Args) == 2:
			if f, ok := constString(x.Call.Args[0]); ok {
				if args, ok := fmtVarargs(x.Call.Args[1]); ok {
					return t.sprintf(f, args, busy)
				}
			}
		case pkg == "strconv" && (name == "Itoa" || name == "FormatInt"):
			return []string{string(rune(mNum))}
		}
		if callee := x.Call.StaticCallee(); callee != nil {
			if callee = t.w.unwrap(callee); t.w.InModule(callee) {
				return t.retText(callee)
			}
		}
	}
	return t.unknown(v)
}

// retText is the union of the templates of the first string result over the returns of fn.
func (t *textCtx) retText(fn *ssa.Function) []string {
	if a, ok := t.retMemo[fn]; ok {
		return a
	}
	if t.retBusy[fn] {
		return []string{string(rune(mAny))}
	}
	t.retBusy[fn] = true
	idx := stringResult(fn)
	var out []string
	if idx >= 0 {
		allInstrs(fn, func(ins ssa.Instruction) {
			if ret, ok := ins.(*ssa.Return); ok && idx < len(ret.Results) {
				out = altUnion(out, t.eval(ret.Results[idx], nil))
			}
		})
	}
	if len(out) == 0 {
		out = []string{string(rune(mAny))}
	}
	out = altCap(out)
	delete(t.retBusy, fn)
	t.retMemo[fn] = out
	return out
}

func stringResult(fn *ssa.Function) int {
	rs := fn.Signature.Results()
	for i := 0; i < rs.Len(); i++ {
		if basicInfo(rs.At(i).Type())&types.IsString != 0 {
			return i
		}
	}
	return -1
}

// mayNL: may the text of v contain a newline? Least fixpoint: a newline must originate in a literal or in text the
// analysis does not see.
func (t *textCtx) mayNL(v ssa.Value) bool {
	if m, ok := t.nlMemo[v]; ok {
		return m == 2
	}
	t.nlMemo[v] = 1
	res := t.mayNL1(v)
	if res {
		t.nlMemo[v] = 2
	}
	return res
}

func (t *textCtx) mayNL1(v ssa.Value) bool {
	bi := basicInfo(v.Type())
	if bi&(types.IsInteger|types.IsFloat|types.IsBoolean) != 0 && !hasTextMethod(v.Type()) {
		return false
	}
	switch x := v.(type) {
	case *ssa.Const:
		s, ok := constString(x)
		return !ok || strings.Contains(s, "\n")
	case *ssa.Phi:
		for _, e := range x.Edges {
			if t.mayNL(e) {
				return true
			}
		}
		return false
	case *ssa.BinOp:
		if x.Op == token.ADD {
			return t.mayNL(x.X) || t.mayNL(x.Y)
		}
	case *ssa.MakeInterface:
		return t.mayNL(x.X)
	case *ssa.ChangeType:
		return t.mayNL(x.X)
	case *ssa.Slice:
		if bi&types.IsString != 0 {
			return t.mayNL(x.X)
		}
	case *ssa.Call:
		pkg, name := stdCallee(&x.Call)
		switch {
		case pkg == "fmt" && name == "Sprintf" && len(x.Call.Args) == 2:
			f, ok := constString(x.Call.Args[0])
			if !ok || strings.Contains(f, "\n") {
				return true
			}
			args, ok := fmtVarargs(x.Call.Args[1])
			if !ok {
				return true
			}
			for _, a := range args {
				if t.mayNL(a) {
					return true
				}
			}
			return false
		case pkg == "strconv" && (name == "Itoa" || name == "FormatInt" || name == "Quote"):
			return false
		case (pkg == "strings" && name == "Builder.String" || pkg == "bytes" && name == "Buffer.String") && len(x.Call.Args) == 1:
			// the text of a builder local to the function: a newline must come from one of the writes into it
			al, isAl := x.Call.Args[0].(*ssa.Alloc)
			if !isAl || x.Parent() == nil {
				return true
			}
			for _, ref := range *al.Referrers() {
				switch rr := ref.(type) {
				case *ssa.Call:
					if p2, _ := stdCallee(&rr.Call); p2 != "strings" && p2 != "bytes" && p2 != "fmt" && p2 != "io" {
						return true // handed to code the analysis does not see
					}
				case *ssa.MakeInterface:
					for _, r2 := range *rr.Referrers() {
						c2, isCall := r2.(*ssa.Call)
						if !isCall {
							return true
						}
						if p2, _ := stdCallee(&c2.Call); p2 != "fmt" && p2 != "io" {
							return true
						}
					}
				case *ssa.DebugRef:
				default:
					return true
				}
			}
			nl := false
			sink := sinkOf(al)
			allInstrs(x.Parent(), func(ins ssa.Instruction) {
				em := t.emissionOf(ins)
				if em == nil || em.Sink != sink {
					return
				}
				for _, a := range em.Text {
					if strings.Contains(a, "\n") || strings.ContainsRune(a, mAny) {
						nl = true
					}
				}
			})
			return nl
		case pkg == "strings" && name == "Join" && len(x.Call.Args) == 2:
			if t.mayNL(x.Call.Args[1]) {
				return true
			}
			vals, complete := sliceElems(x.Call.Args[0])
			if !complete {
				return true
			}
			for _, e := range vals {
				if t.mayNL(e) {
					return true
				}
			}
			return false
		}
		if callee := x.Call.StaticCallee(); callee != nil {
			if callee = t.w.unwrap(callee); t.w.InModule(callee) {
				return t.fnMayNL(callee)
			}
		}
	}
	return true
}

func (t *textCtx) fnMayNL(fn *ssa.Function) bool {
	if m, ok := t.nlFn[fn]; ok {
		return m == 2
	}
	t.nlFn[fn] = 1
	idx := stringResult(fn)
	res := idx < 0
	allInstrs(fn, func(ins ssa.Instruction) {
		if ret, ok := ins.(*ssa.Return); ok && idx >= 0 && idx < len(ret.Results) && t.mayNL(ret.Results[idx]) {
			res = true
		}
	})
	if res {
		t.nlFn[fn] = 2
	}
	return res
}

// ---------- slices of strings ----------

// sliceElems returns every value that may be an element of the slice v (zero values excluded): the stores through
// every slice of the same family (phi / append / reslice closure in both directions). complete is false when the
// family reaches storage the function does not own (parameter, field, call result) or is handed to unknown code.
func sliceElems(v ssa.Value) (vals []ssa.Value, complete bool) {
	_, vals, complete = sliceFamily(v)
	return vals, complete
}

// sliceFamily is sliceElems that also returns the slice values of the family.
func sliceFamily(v ssa.Value) (fam map[ssa.Value]bool, vals []ssa.Value, complete bool) {
	complete = true
	fam = map[ssa.Value]bool{}
	arrays := map[*ssa.Alloc]bool{}
	var work []ssa.Value
	add := func(x ssa.Value) {
		if x != nil && !fam[x] {
			fam[x] = true
			work = append(work, x)
		}
	}
	add(v)
	for len(work) > 0 {
		x := work[len(work)-1]
		work = work[:len(work)-1]
		// backward
		switch y := x.(type) {
		case *ssa.Phi:
			for _, e := range y.Edges {
				add(e)
			}
		case *ssa.MakeSlice:
		case *ssa.Const:
		case *ssa.Slice:
			if al, ok := y.X.(*ssa.Alloc); ok {
				arrays[al] = true
			} else {
				add(y.X)
			}
		case *ssa.Call:
			if b, ok := y.Call.Value.(*ssa.Builtin); ok && b.Name() == "append" && len(y.Call.Args) == 2 {
				add(y.Call.Args[0])
				add(y.Call.Args[1])
			} else {
				complete = false
			}
		default:
			complete = false
		}
		// forward
		if x.Referrers() == nil {
			continue
		}
		for _, r := range *x.Referrers() {
			switch y := r.(type) {
			case *ssa.Phi:
				add(y)
			case *ssa.Slice:
				add(y)
			case *ssa.IndexAddr:
				for _, r2 := range *y.Referrers() {
					if st, ok := r2.(*ssa.Store); ok && st.Addr == y {
						vals = append(vals, st.Val)
					}
				}
			case *ssa.Call:
				if b, ok := y.Call.Value.(*ssa.Builtin); ok {
					if b.Name() == "append" && len(y.Call.Args) == 2 && y.Call.Args[0] == x {
						add(y)
					}
					if b.Name() == "copy" && len(y.Call.Args) == 2 && y.Call.Args[0] == x {
						complete = false
					}
					continue
				}
				pkg, name := stdCallee(&y.Call)
				if !(pkg == "strings" && name == "Join") && !(pkg == "sort" && name == "Strings") && pkg != "fmt" {
					complete = false
				}
			case *ssa.Store:
				if y.Val == x {
					complete = false
				}
			case *ssa.MakeInterface, *ssa.MakeClosure, *ssa.Go, *ssa.Defer, *ssa.Send, *ssa.MapUpdate:
				complete = false
			}
		}
	}
	for al := range arrays {
		for _, r := range *al.Referrers() {
			if ia, ok := r.(*ssa.IndexAddr); ok {
				for _, r2 := range *ia.Referrers() {
					if st, ok := r2.(*ssa.Store); ok && st.Addr == ia {
						vals = append(vals, st.Val)
					}
				}
			}
		}
	}
	sort.SliceStable(vals, func(i, j int) bool { return vals[i].Pos() < vals[j].Pos() })
	return fam, vals, complete
}

// ---------- shapes: what the separator rule needs to know about a piece of text ----------

const (
	cWS  uint8 = 1 // whitespace
	cNW  uint8 = 2 // definitely not whitespace
	cUnk uint8 = 4 // unknown character
	cE   uint8 = 8 // the text may be empty
)

const (
	n0 uint8 = 1
	n1 uint8 = 2
	n2 uint8 = 4 // two or more newlines
	nU uint8 = 8 // unknown number of newlines
)

type shape struct{ first, last, nl uint8 }

var emptyShape = shape{cE, cE, n0}

func (s shape) bottom() bool { return s.first == 0 }

func (s shape) union(o shape) shape { return shape{s.first | o.first, s.last | o.last, s.nl | o.nl} }

func (s shape) concat(o shape) shape {
	if s.bottom() || o.bottom() {
		return shape{}
	}
	r := shape{first: s.first &^ cE, last: o.last &^ cE}
	if s.first&cE != 0 {
		r.first |= o.first
	}
	if o.last&cE != 0 {
		r.last |= s.last
	}
	for i := uint(0); i < 4; i++ {
		for j := uint(0); j < 4; j++ {
			if s.nl&(1<<i) == 0 || o.nl&(1<<j) == 0 {
				continue
			}
			switch {
			case i == 3 || j == 3:
				r.nl |= nU
			case i+j >= 2:
				r.nl |= n2
			default:
				r.nl |= 1 << (i + j)
			}
		}
	}
	return r
}

func isWS(c byte) bool { return c == ' ' || c == '\t' || c == '\n' || c == '\r' }

func charClass(c byte) uint8 {
	switch {
	case c == mStr || c == mAny:
		return cUnk
	case isWS(c):
		return cWS
	}
	return cNW
}

func shapeOfAlt(a string) shape {
	var s shape
	i := 0
	for ; i < len(a); i++ {
		s.first |= charClass(a[i])
		if a[i] != mStr && a[i] != mAny {
			break
		}
	}
	if i == len(a) {
		s.first |= cE
	}
	j := len(a) - 1
	for ; j >= 0; j-- {
		s.last |= charClass(a[j])
		if a[j] != mStr && a[j] != mAny {
			break
		}
	}
	if j < 0 {
		s.last |= cE
	}
	switch n := strings.Count(a, "\n"); {
	case strings.IndexByte(a, mAny) >= 0:
		s.nl = nU
	case n == 0:
		s.nl = n0
	case n == 1:
		s.nl = n1
	default:
		s.nl = n2
	}
	return s
}

func shapeOfAlts(alts []string) shape {
	var s shape
	for _, a := range alts {
		s = s.union(shapeOfAlt(a))
	}
	return s
}

// separated: two consecutive items of this shape always meet at whitespace.
func (s shape) separated() bool {
	return s.last&^(cWS|cE) == 0 || s.first&^(cWS|cE) == 0
}

// glued: some item certainly ends and some item certainly starts with a non-blank.
func (s shape) glued() bool { return s.last&cNW != 0 && s.first&cNW != 0 }

func showAlt(a string) string {
	r := strings.NewReplacer(string(rune(mNum)), "<int>", string(rune(mStr)), "<text>", string(rune(mAny)), "<text*>")
	return strconv.Quote(r.Replace(a))
}

func showAlts(alts []string) string {
	var out []string
	for i, a := range alts {
		if i == 6 {
			out = append(out, "...")
			break
		}
		out = append(out, showAlt(a))
	}
	return strings.Join(out, " | ")
}

// ---------- printer functions ----------

type printerFamily struct {
	Name    string
	Roots   [][2]string // package, function
	Parser  [2]string
	Comment string // comment marker of the format
	Header  string // header marker whose next word is positional ("" if none)
}

var printerFamilies = []printerFamily{
	{Name: "solver CNF", Roots: [][2]string{{"solver", "Problem.CNF"}, {"solver", "Clause.CNF"}}, Parser: [2]string{"solver", "ParseCNF"}, Comment: "c", Header: "p"},
	{Name: "explain CNF", Roots: [][2]string{{"explain", "Problem.CNF"}}, Parser: [2]string{"explain", "ParseCNF"}, Comment: "c", Header: "p"},
	{Name: "bf Dimacs", Roots: [][2]string{{"bf", "Dimacs"}}, Parser: [2]string{"solver", "ParseCNF"}, Comment: "c", Header: "p"},
	{Name: "OPB", Roots: [][2]string{{"solver", "Problem.PBString"}, {"solver", "Clause.PBString"}, {"solver", "Solver.PBString"}}, Parser: [2]string{"solver", "ParseOPB"}, Comment: "*"},
}

func isWriterType(t types.Type) bool {
	it, ok := t.Underlying().(*types.Interface)
	if !ok {
		return false
	}
	for i := 0; i < it.NumMethods(); i++ {
		if it.Method(i).Name() == "Write" {
			return true
		}
	}
	return false
}

// buildsText: the function returns a string or writes to an io.Writer parameter.
func buildsText(fn *ssa.Function) bool {
	if stringResult(fn) >= 0 {
		return true
	}
	for _, p := range fn.Params {
		if isWriterType(p.Type()) {
			return true
		}
	}
	return false
}

// printerFns returns the text-building functions reachable from the roots of a family; missing lists unresolved roots.
func (w *World) printerFns(f printerFamily) (fns []*ssa.Function, missing []string) {
	var roots []*ssa.Function
	for _, r := range f.Roots {
		fn := w.Func(r[0], r[1])
		if fn == nil {
			missing = append(missing, r[0]+"."+r[1])
			continue
		}
		roots = append(roots, fn)
	}
	for _, fn := range w.SortedFns(w.Reachable(roots...)) {
		if buildsText(fn) {
			fns = append(fns, fn)
		}
	}
	return fns, missing
}

func (w *World) allPrinterFns(r *Report, rule string) []*ssa.Function {
	seen := map[*ssa.Function]bool{}
	var out []*ssa.Function
	for _, f := range printerFamilies {
		fns, missing := w.printerFns(f)
		for _, m := range missing {
			r.Unk(rule, "printer "+m, "-", "printer entry point not found")
		}
		for _, fn := range fns {
			if !seen[fn] {
				seen[fn] = true
				out = append(out, fn)
			}
		}
	}
	sort.Slice(out, func(i, j int) bool { return out[i].String() < out[j].String() })
	return out
}

// ---------- loops ----------

type loopInfo struct {
	Head  *ssa.BasicBlock
	Body  map[*ssa.BasicBlock]bool
	Depth int // 1 = outermost
	Desc  string
}

func loopsOf(w *World, fn *ssa.Function) []*loopInfo {
	var ls []*loopInfo
	for _, h := range loopHeaders(fn) {
		ls = append(ls, &loopInfo{Head: h, Body: loopBlocks(fn, h)})
	}
	for _, l := range ls {
		for _, o := range ls {
			if o.Body[l.Head] {
				l.Depth++
			}
		}
	}
	astLoops := astLoopsOf(fn)
	used := map[string]int{}
	for i, l := range ls {
		l.Desc = ""
		// an instruction whose innermost loop is l
	search:
		for _, b := range fn.Blocks {
			if !l.Body[b] {
				continue
			}
			inner := false
			for _, o := range ls {
				if o != l && o.Body[b] && l.Body[o.Head] && o.Head != l.Head {
					inner = true
				}
			}
			if inner {
				continue
			}
			for _, ins := range b.Instrs {
				p := ins.Pos()
				if !p.IsValid() {
					continue
				}
				var chain []ast.Node
				for _, al := range astLoops {
					if al.Pos() <= p && p < al.End() {
						chain = append(chain, al)
					}
				}
				if len(chain) >= l.Depth {
					l.Desc = describeLoop(chain[l.Depth-1])
					break search
				}
			}
		}
		if l.Desc == "" {
			l.Desc = fmt.Sprintf("loop#%d", i+1)
		}
		used[l.Desc]++
		if used[l.Desc] > 1 {
			l.Desc += fmt.Sprintf("#%d", used[l.Desc])
		}
	}
	_ = w
	return ls
}

// astLoopsOf lists the for/range statements of fn's syntax, outer before inner.
func astLoopsOf(fn *ssa.Function) []ast.Node {
	var out []ast.Node
	if fn.Syntax() == nil {
		return nil
	}
	ast.Inspect(fn.Syntax(), func(n ast.Node) bool {
		switch x := n.(type) {
		case *ast.ForStmt, *ast.RangeStmt:
			out = append(out, x)
		case *ast.FuncLit:
			if n != fn.Syntax() {
				return false
			}
		}
		return true
	})
	return out
}

func describeLoop(n ast.Node) string {
	switch x := n.(type) {
	case *ast.RangeStmt:
		return "range " + types.ExprString(x.X)
	case *ast.ForStmt:
		if x.Cond != nil {
			return "for " + types.ExprString(x.Cond)
		}
		return "for"
	}
	return "loop"
}

// callExprAt finds the call expression of fn's syntax whose opening parenthesis is at pos.
func callExprAt(fn *ssa.Function, pos token.Pos) *ast.CallExpr {
	var found *ast.CallExpr
	if fn.Syntax() == nil || !pos.IsValid() {
		return nil
	}
	ast.Inspect(fn.Syntax(), func(n ast.Node) bool {
		if c, ok := n.(*ast.CallExpr); ok && c.Lparen == pos {
			found = c
		}
		return found == nil
	})
	return found
}

type keyer map[string]int

func (k keyer) uniq(s string) string {
	k[s]++
	if k[s] > 1 {
		return fmt.Sprintf("%s #%d", s, k[s])
	}
	return s
}

// ---------- R18.1 separators ----------

type emission struct {
	Instr ssa.Instruction
	Sink  ssa.Value
	Text  []string
}

// sinkOf normalises a writer operand: interface boxing removed, loads of package-level variables mapped to the variable.
func sinkOf(v ssa.Value) ssa.Value {
	for i := 0; i < 4; i++ {
		switch x := v.(type) {
		case *ssa.MakeInterface:
			v = x.X
			continue
		case *ssa.ChangeInterface:
			v = x.X
			continue
		case *ssa.UnOp:
			if g, ok := x.X.(*ssa.Global); ok && x.Op == token.MUL {
				return g
			}
		}
		break
	}
	return v
}

func sinkName(v ssa.Value) string {
	switch x := v.(type) {
	case *ssa.Parameter:
		return x.Name()
	case *ssa.Alloc:
		if x.Comment != "" {
			return x.Comment
		}
	case *ssa.Global:
		if x.Pkg != nil && x.Pkg.Pkg != nil {
			return x.Pkg.Pkg.Name() + "." + x.Name()
		}
	case *ssa.FreeVar:
		return x.Name()
	}
	return "writer"
}

// printText is the text written by one fmt print call given its kind ("f": format string, "ln": Println style, "": Print).
func (t *textCtx) printText(kind string, operands []ssa.Value) []string {
	switch kind {
	case "f":
		if len(operands) == 2 {
			if f, ok := constString(operands[0]); ok {
				if args, ok := fmtVarargs(operands[1]); ok {
					return t.sprintf(f, args, nil)
				}
			}
		}
		return []string{string(rune(mAny))}
	default:
		if len(operands) != 1 {
			return []string{string(rune(mAny))}
		}
		args, ok := fmtVarargs(operands[0])
		if !ok {
			return []string{string(rune(mAny))}
		}
		alts := []string{""}
		for i, a := range args {
			if i > 0 {
				if kind == "ln" {
					alts = altProduct(alts, []string{" "})
				} else if basicInfo(a.Type())&types.IsString == 0 && basicInfo(args[i-1].Type())&types.IsString == 0 {
					alts = altProduct(alts, []string{" "})
				}
			}
			alts = altCap(altProduct(alts, t.anyText(a, nil)))
		}
		if kind == "ln" {
			alts = altProduct(alts, []string{"\n"})
		}
		return alts
	}
}

// stdoutSink is the pseudo sink of fmt.Print*.
var stdoutSink = &ssa.Global{}

// emissionOf recognises a write of text to a writer, builder or standard output.
func (t *textCtx) emissionOf(ins ssa.Instruction) *emission {
	call, ok := ins.(*ssa.Call)
	if !ok {
		return nil
	}
	c := &call.Call
	if c.IsInvoke() {
		if !isWriterType(c.Value.Type()) {
			return nil
		}
		switch c.Method.Name() {
		case "WriteString":
			if len(c.Args) == 1 {
				return &emission{ins, sinkOf(c.Value), t.eval(c.Args[0], nil)}
			}
		case "Write":
			if len(c.Args) == 1 {
				if cv, ok := c.Args[0].(*ssa.Convert); ok && basicInfo(cv.X.Type())&types.IsString != 0 {
					return &emission{ins, sinkOf(c.Value), t.eval(cv.X, nil)}
				}
				return &emission{ins, sinkOf(c.Value), []string{string(rune(mAny))}}
			}
		}
		return nil
	}
	if sc := c.StaticCallee(); sc != nil {
		if wi, ti, isW := writerWrapper(t.w, t.w.unwrap(sc)); isW && wi < len(c.Args) && ti < len(c.Args) {
			return &emission{ins, sinkOf(c.Args[wi]), t.eval(c.Args[ti], nil)}
		}
	}
	pkg, name := stdCallee(c)
	switch pkg {
	case "io":
		if name == "WriteString" && len(c.Args) == 2 {
			return &emission{ins, sinkOf(c.Args[0]), t.eval(c.Args[1], nil)}
		}
	case "fmt":
		switch name {
		case "Fprintf":
			return &emission{ins, sinkOf(c.Args[0]), t.printText("f", c.Args[1:])}
		case "Fprintln":
			return &emission{ins, sinkOf(c.Args[0]), t.printText("ln", c.Args[1:])}
		case "Fprint":
			return &emission{ins, sinkOf(c.Args[0]), t.printText("", c.Args[1:])}
		case "Printf":
			return &emission{ins, stdoutSink, t.printText("f", c.Args)}
		case "Println":
			return &emission{ins, stdoutSink, t.printText("ln", c.Args)}
		case "Print":
			return &emission{ins, stdoutSink, t.printText("", c.Args)}
		}
	case "strings", "bytes":
		switch name {
		case "Builder.WriteString", "Buffer.WriteString":
			return &emission{ins, sinkOf(c.Args[0]), t.eval(c.Args[1], nil)}
		case "Builder.WriteByte", "Buffer.WriteByte", "Builder.WriteRune", "Buffer.WriteRune":
			if k, ok := constInt(c.Args[1]); ok && k > 0 && k < 128 {
				return &emission{ins, sinkOf(c.Args[0]), []string{string(rune(k))}}
			}
			return &emission{ins, sinkOf(c.Args[0]), []string{string(rune(mAny))}}
		case "Builder.Write", "Buffer.Write":
			return &emission{ins, sinkOf(c.Args[0]), []string{string(rune(mAny))}}
		}
	}
	return nil
}

// emissionsIn lists the emissions of fn; calls that hand a sink already written to in fn to other code count as
// emissions of unknown text.
func (t *textCtx) emissionsIn(fn *ssa.Function) []*emission {
	var out []*emission
	sinks := map[ssa.Value]bool{}
	allInstrs(fn, func(ins ssa.Instruction) {
		if e := t.emissionOf(ins); e != nil {
			out = append(out, e)
			sinks[e.Sink] = true
		}
	})
	allInstrs(fn, func(ins ssa.Instruction) {
		call, ok := ins.(*ssa.Call)
		if !ok || t.emissionOf(ins) != nil {
			return
		}
		pkg, name := stdCallee(&call.Call)
		if pkg == "strings" || pkg == "bytes" || pkg == "fmt" && strings.HasPrefix(name, "Errorf") {
			return // Builder.String, Len, Reset ... do not write text we care about
		}
		for _, a := range call.Call.Args {
			if s := sinkOf(a); sinks[s] && s != stdoutSink {
				out = append(out, &emission{ins, s, []string{string(rune(mAny))}})
			}
		}
	})
	return out
}

// notFirstPruned returns the control-flow edges of the loop that cannot be taken in an iteration other than the
// first one: branches on the loop counter compared with a constant (`if i > 0`, `if i != 0`, `if i == 0`).
// nil when the loop has no recognisable counter or no such branch.
func notFirstPruned(l *loopInfo) map[[2]*ssa.BasicBlock]bool {
	h := l.Head
	idx := map[ssa.Value]bool{} // values that are >= 1 in every iteration but the first
	for _, ins := range h.Instrs {
		phi, ok := ins.(*ssa.Phi)
		if !ok {
			break
		}
		if basicInfo(phi.Type())&types.IsInteger == 0 {
			continue
		}
		var start int64
		var inc ssa.Value
		good := true
		first := true
		for i, p := range h.Preds {
			e := phi.Edges[i]
			if h.Dominates(p) {
				b, ok := e.(*ssa.BinOp)
				k, isK := int64(0), false
				if ok && b.Op == token.ADD && b.X == phi {
					k, isK = constInt(b.Y)
				}
				if !ok || !isK || k != 1 || (inc != nil && inc != e) {
					good = false
				}
				inc = e
			} else {
				k, ok := constInt(e)
				if !ok || (!first && k != start) {
					good = false
				}
				start, first = k, false
			}
		}
		if !good || inc == nil || first {
			continue
		}
		switch start {
		case 0:
			idx[phi] = true
		case -1:
			idx[inc] = true
		}
	}
	if len(idx) == 0 {
		return nil
	}
	pruned := map[[2]*ssa.BasicBlock]bool{}
	for b := range l.Body {
		iff, ok := b.Instrs[len(b.Instrs)-1].(*ssa.If)
		if !ok || len(b.Succs) != 2 {
			continue
		}
		cond, neg := iff.Cond, false
		for {
			if u, ok := cond.(*ssa.UnOp); ok && u.Op == token.NOT {
				cond, neg = u.X, !neg
				continue
			}
			break
		}
		bo, ok := cond.(*ssa.BinOp)
		if !ok {
			continue
		}
		op := bo.Op
		var c int64
		if k, isK := constInt(bo.Y); isK && idx[bo.X] {
			c = k
		} else if k, isK := constInt(bo.X); isK && idx[bo.Y] {
			c = k
			switch op { // mirror: c op idx  ==  idx op' c
			case token.LSS:
				op = token.GTR
			case token.GTR:
				op = token.LSS
			case token.LEQ:
				op = token.GEQ
			case token.GEQ:
				op = token.LEQ
			}
		} else {
			continue
		}
		// value of `idx op c` knowing idx >= 1: 1 true, -1 false, 0 unknown
		val := 0
		switch op {
		case token.NEQ:
			if c <= 0 {
				val = 1
			}
		case token.EQL:
			if c <= 0 {
				val = -1
			}
		case token.GTR:
			if c <= 0 {
				val = 1
			}
		case token.GEQ:
			if c <= 1 {
				val = 1
			}
		case token.LSS:
			if c <= 1 {
				val = -1
			}
		case token.LEQ:
			if c <= 0 {
				val = -1
			}
		}
		if neg {
			val = -val
		}
		switch val {
		case 1:
			pruned[[2]*ssa.BasicBlock{b, b.Succs[1]}] = true
		case -1:
			pruned[[2]*ssa.BasicBlock{b, b.Succs[0]}] = true
		}
	}
	if len(pruned) == 0 {
		return nil
	}
	return pruned
}

// sinkItem computes, for a loop and a sink, the shape of the text written to the sink during one iteration.
func sinkItem(l *loopInfo, ems map[ssa.Instruction]*emission, sink ssa.Value, pruned map[[2]*ssa.BasicBlock]bool) shape {
	in := map[*ssa.BasicBlock]shape{l.Head: emptyShape}
	var item shape
	work := []*ssa.BasicBlock{l.Head}
	for n := 0; len(work) > 0 && n < 100000; n++ {
		b := work[len(work)-1]
		work = work[:len(work)-1]
		s := in[b]
		for _, ins := range b.Instrs {
			if e := ems[ins]; e != nil && e.Sink == sink {
				s = s.concat(shapeOfAlts(e.Text))
			}
		}
		for _, sc := range b.Succs {
			if !l.Body[sc] || pruned[[2]*ssa.BasicBlock{b, sc}] {
				continue
			}
			if sc == l.Head {
				item = item.union(s)
				continue
			}
			if u := in[sc].union(s); u != in[sc] {
				in[sc] = u
				work = append(work, sc)
			}
		}
	}
	return item
}

// accumItem computes the shape of what one iteration of loop l appends to the string accumulator phi (a phi of the
// loop header). ok is false when phi is not an accumulator of this loop; problem is set when the loop modifies the
// variable in a way that is not an append.
func (t *textCtx) accumItem(l *loopInfo, phi *ssa.Phi) (item shape, pieces []string, ok bool, problem string) {
	return t.accumItemPruned(l, phi, nil)
}

// accumItemPruned is accumItem restricted to the control-flow edges that are not pruned.
func (t *textCtx) accumItemPruned(l *loopInfo, phi *ssa.Phi, pruned map[[2]*ssa.BasicBlock]bool) (item shape, pieces []string, ok bool, problem string) {
	live := func(from, to *ssa.BasicBlock) bool { return !pruned[[2]*ssa.BasicBlock{from, to}] }
	reach := map[*ssa.BasicBlock]bool{l.Head: true}
	if pruned != nil {
		stack := []*ssa.BasicBlock{l.Head}
		for len(stack) > 0 {
			b := stack[len(stack)-1]
			stack = stack[:len(stack)-1]
			for _, sc := range b.Succs {
				if l.Body[sc] && live(b, sc) && !reach[sc] {
					reach[sc] = true
					stack = append(stack, sc)
				}
			}
		}
	}
	feasible := func(b *ssa.BasicBlock) bool { return pruned == nil || reach[b] }
	T := map[ssa.Value]shape{phi: emptyShape}
	var nodes []ssa.Value
	for b := range l.Body {
		if !feasible(b) {
			continue
		}
		for _, ins := range b.Instrs {
			switch x := ins.(type) {
			case *ssa.BinOp:
				if x.Op == token.ADD && basicInfo(x.Type())&types.IsString != 0 {
					nodes = append(nodes, x)
				}
			case *ssa.Phi:
				if x != phi && basicInfo(x.Type())&types.IsString != 0 {
					nodes = append(nodes, x)
				}
			}
		}
	}
	sort.Slice(nodes, func(i, j int) bool { return nodes[i].Name() < nodes[j].Name() })
	// edges of a phi that can be taken
	liveEdges := func(x *ssa.Phi) []ssa.Value {
		var out []ssa.Value
		for i, p := range x.Block().Preds {
			if i < len(x.Edges) && (pruned == nil || (l.Body[p] && reach[p] && live(p, x.Block())) || !l.Body[p]) {
				out = append(out, x.Edges[i])
			}
		}
		return out
	}
	prepend := false
	for changed, n := true, 0; changed && n < 1000; n++ {
		changed = false
		for _, v := range nodes {
			var s shape
			switch x := v.(type) {
			case *ssa.BinOp:
				if tx := T[x.X]; !tx.bottom() {
					s = tx.concat(shapeOfAlts(t.eval(x.Y, nil)))
				} else if ty := T[x.Y]; !ty.bottom() {
					prepend = true
				}
			case *ssa.Phi:
				for _, e := range liveEdges(x) {
					s = s.union(T[e])
				}
			}
			if u := T[v].union(s); u != T[v] {
				T[v] = u
				changed = true
			}
		}
	}
	derived, underived := 0, 0
	for i, p := range l.Head.Preds {
		if !l.Head.Dominates(p) || i >= len(phi.Edges) || !feasible(p) || !live(p, l.Head) {
			continue
		}
		e := phi.Edges[i]
		if s := T[e]; !s.bottom() {
			derived++
			item = item.union(s)
		} else {
			underived++
		}
	}
	if derived == 0 {
		if prepend {
			return item, nil, true, "the loop prepends to the variable; only appending accumulation is understood"
		}
		return item, nil, false, ""
	}
	if underived > 0 {
		problem = "on some path through the loop the variable is replaced rather than appended to"
	}
	for _, v := range nodes {
		if x, isAdd := v.(*ssa.BinOp); isAdd && !T[x].bottom() && !T[x.X].bottom() {
			for _, a := range t.eval(x.Y, nil) {
				pieces = append(pieces, a)
			}
		}
		if x, isPhi := v.(*ssa.Phi); isPhi && !T[x].bottom() {
			for _, e := range liveEdges(x) {
				if T[e].bottom() {
					problem = "on some path through the loop the variable is replaced rather than appended to"
				}
			}
		}
	}
	if prepend {
		problem = "the loop also prepends to the variable; only appending accumulation is understood"
	}
	return item, pieces, true, problem
}

func ruleR18_1(w *World, r *Report) {
	const id = "R18.1"
	r.Rule(id, "in every DIMACS/OPB printer function, the items a loop emits (string accumulation, writes to a writer or builder, elements handed to strings.Join) meet at a boundary that contains whitespace", 9)
	t := newTextCtx(w)
	keys := keyer{}
	for _, fn := range w.allPrinterFns(r, id) {
		fname := w.FuncName(fn)
		loops := loopsOf(w, fn)
		ems := map[ssa.Instruction]*emission{}
		for _, e := range t.emissionsIn(fn) {
			ems[e.Instr] = e
		}
		for _, l := range loops {
			// (a) string accumulators
			for _, ins := range l.Head.Instrs {
				phi, ok := ins.(*ssa.Phi)
				if !ok {
					break
				}
				if basicInfo(phi.Type())&types.IsString == 0 {
					continue
				}
				item, pieces, isAcc, problem := t.accumItem(l, phi)
				if !isAcc || (item == emptyShape && problem == "") {
					continue
				}
				name := phi.Comment
				if name == "" {
					name = "string"
				}
				key := keys.uniq(fmt.Sprintf("%s: %s accumulated in %s", fname, name, l.Desc))
				pos := w.Pos(fn.Pos())
				for i, p := range l.Head.Preds {
					if l.Head.Dominates(p) && i < len(phi.Edges) {
						if vi, ok := phi.Edges[i].(ssa.Instruction); ok {
							pos = w.InstrPos(vi)
						}
					}
				}
				var later *shape
				if pr := notFirstPruned(l); pr != nil && problem == "" && !item.separated() {
					if it2, _, ok2, p2 := t.accumItemPruned(l, phi, pr); ok2 && p2 == "" {
						later = &it2
					}
				}
				reportItem(r, id, key, pos, item, later, problem, "appended per iteration: "+showAlts(pieces))
			}
			// (b) writers
			sinks := map[ssa.Value]bool{}
			var order []ssa.Value
			var firstIns = map[ssa.Value]ssa.Instruction{}
			var texts = map[ssa.Value][]string{}
			for _, b := range fn.Blocks {
				if !l.Body[b] {
					continue
				}
				for _, ins := range b.Instrs {
					if e := ems[ins]; e != nil {
						if !sinks[e.Sink] {
							sinks[e.Sink] = true
							order = append(order, e.Sink)
							firstIns[e.Sink] = ins
						}
						texts[e.Sink] = append(texts[e.Sink], e.Text...)
					}
				}
			}
			for _, s := range order {
				item := sinkItem(l, ems, s, nil)
				if item.bottom() || item == emptyShape {
					continue
				}
				name := "standard output"
				if s != stdoutSink {
					name = sinkName(s)
				}
				if g, isG := s.(*ssa.Global); isG && s != stdoutSink && g.Name() == "Stderr" {
					continue // diagnostics, not part of the rendering
				}
				key := keys.uniq(fmt.Sprintf("%s: writes to %s in %s", fname, name, l.Desc))
				var later *shape
				if pr := notFirstPruned(l); pr != nil && !item.separated() {
					if it2 := sinkItem(l, ems, s, pr); !it2.bottom() {
						later = &it2
					}
				}
				reportItem(r, id, key, w.InstrPos(firstIns[s]), item, later, "", "written per iteration: "+showAlts(texts[s]))
			}
		}
		// (c) strings.Join
		allInstrs(fn, func(ins ssa.Instruction) {
			call, ok := ins.(*ssa.Call)
			if !ok {
				return
			}
			if pkg, name := stdCallee(&call.Call); pkg != "strings" || name != "Join" || len(call.Call.Args) != 2 {
				return
			}
			sep := t.eval(call.Call.Args[1], nil)
			what := "elements"
			if ce := callExprAt(fn, call.Pos()); ce != nil && len(ce.Args) == 2 {
				what = types.ExprString(ce.Args[0])
			}
			key := keys.uniq(fmt.Sprintf("%s: strings.Join(%s, %s)", fname, what, showAlts(sep)))
			vals, complete := sliceElems(call.Call.Args[0])
			var elems shape
			var ealts []string
			for _, v := range vals {
				a := t.eval(v, nil)
				ealts = altUnion(ealts, a)
				elems = elems.union(shapeOfAlts(a))
			}
			if !complete {
				elems = elems.union(shape{cUnk | cE, cUnk | cE, nU})
			}
			sepWS, sepKnown := true, true
			for _, a := range sep {
				hasWS := false
				for i := 0; i < len(a); i++ {
					if isWS(a[i]) {
						hasWS = true
					}
					if a[i] == mStr || a[i] == mAny {
						sepKnown = false
					}
				}
				if !hasWS {
					sepWS = false
				}
			}
			detail := fmt.Sprintf("separator %s, elements %s", showAlts(sep), showAlts(ealts))
			switch {
			case sepWS:
				r.OK(id, key, w.InstrPos(ins), "the separator contains whitespace; "+detail)
			case elems.bottom():
				r.Unk(id, key, w.InstrPos(ins), "no element of the joined slice could be found; "+detail)
			case elems.separated():
				r.OK(id, key, w.InstrPos(ins), "every element starts or every element ends with whitespace; "+detail)
			case sepKnown && elems.glued():
				r.Bad(id, key, w.InstrPos(ins), "consecutive elements are glued together: the separator holds no whitespace and elements neither start nor end with it; "+detail)
			default:
				r.Unk(id, key, w.InstrPos(ins), "cannot show that consecutive elements are separated by whitespace; "+detail)
			}
		})
	}
}

// later, when not nil, is the shape of the items of every iteration but the first (branches on the loop counter
// resolved): a separator written only between items (`if i > 0 { sep }`) shows there.
func reportItem(r *Report, id, key, pos string, item shape, later *shape, problem, detail string) {
	switch {
	case problem != "":
		r.Unk(id, key, pos, problem+"; "+detail)
	case item.separated():
		r.OK(id, key, pos, "every item starts or every item ends with whitespace; "+detail)
	case later != nil && later.first&^(cWS|cE) == 0:
		r.OK(id, key, pos, "every item but the first one starts with whitespace; "+detail)
	case item.glued():
		r.Bad(id, key, pos, "consecutive items are glued together: an item can end and the next one start with a non-blank character, so the reader sees one token; "+detail)
	default:
		r.Unk(id, key, pos, "cannot show that consecutive items are separated by whitespace (text not known statically); "+detail)
	}
}

// ---------- R18.2 header counts ----------

// accessPath names a value by the way it is obtained, so that two loads of the same field compare equal.
// fields collects the "Type.field" names read on the way.
// accessSubst maps the parameters of a helper under analysis to the access path of the caller's argument.
var accessSubst map[ssa.Value]string

func accessPath(w *World, v ssa.Value, fields map[string]bool) string {
	if s, ok := accessSubst[v]; ok {
		return s
	}
	switch x := v.(type) {
	case *ssa.Parameter:
		return x.Name()
	case *ssa.FreeVar:
		return x.Name()
	case *ssa.UnOp:
		if x.Op == token.MUL {
			if fa, ok := x.X.(*ssa.FieldAddr); ok {
				if o, f, base, ok := fieldOf(fa); ok {
					fields[o+"."+f] = true
					return accessPath(w, base, fields) + "." + f
				}
			}
		}
	case *ssa.FieldAddr:
		if o, f, base, ok := fieldOf(x); ok {
			fields[o+"."+f] = true
			return accessPath(w, base, fields) + "." + f
		}
	case *ssa.Field:
		if o, f, base, ok := fieldOf(x); ok {
			fields[o+"."+f] = true
			return accessPath(w, base, fields) + "." + f
		}
	case *ssa.Call:
		return w.calleeName(&x.Call) + "()@" + x.Name()
	case *ssa.Const:
		return "const " + x.Value.String()
	}
	return "#" + v.Name()
}

// countTerms splits an integer expression into the summands len(path) / path.
func countTerms(w *World, v ssa.Value, fields map[string]bool) []string {
	switch x := v.(type) {
	case *ssa.BinOp:
		if x.Op == token.ADD {
			return append(countTerms(w, x.X, fields), countTerms(w, x.Y, fields)...)
		}
	case *ssa.Const:
		if k, ok := constInt(x); ok && k == 0 {
			return nil
		}
	case *ssa.Call:
		if b, ok := x.Call.Value.(*ssa.Builtin); ok && b.Name() == "len" && len(x.Call.Args) == 1 {
			return []string{"len(" + accessPath(w, x.Call.Args[0], fields) + ")"}
		}
	case *ssa.Convert:
		return countTerms(w, x.X, fields)
	case *ssa.ChangeType:
		return countTerms(w, x.X, fields)
	}
	return []string{accessPath(w, v, fields)}
}

// tripCount recognises `for i := 0; i < N; i++` and `for range slice` and returns N; the loop may only be left
// through its header, or by returning a non-nil error / panicking.
func tripCount(l *loopInfo) (bound ssa.Value, why string) {
	h := l.Head
	iff, ok := h.Instrs[len(h.Instrs)-1].(*ssa.If)
	if !ok || len(h.Succs) != 2 || !l.Body[h.Succs[0]] || l.Body[h.Succs[1]] {
		return nil, "the loop is not controlled by a test in its header"
	}
	cond, ok := iff.Cond.(*ssa.BinOp)
	if !ok || cond.Op != token.LSS {
		return nil, "the loop test is not of the form index < bound"
	}
	isInduction := func(phi *ssa.Phi, start int64, next ssa.Value) bool {
		if phi.Block() != h {
			return false
		}
		for i, p := range h.Preds {
			e := phi.Edges[i]
			if h.Dominates(p) {
				if e != next {
					return false
				}
			} else if k, ok := constInt(e); !ok || k != start {
				return false
			}
		}
		return true
	}
	isIncr := func(v ssa.Value, phi *ssa.Phi) bool {
		b, ok := v.(*ssa.BinOp)
		if !ok || b.Op != token.ADD || b.X != phi {
			return false
		}
		k, ok := constInt(b.Y)
		return ok && k == 1
	}
	okInd := false
	switch a := cond.X.(type) {
	case *ssa.Phi: // for i := 0; i < N; i++
		for i, p := range h.Preds {
			if h.Dominates(p) && isIncr(a.Edges[i], a) && isInduction(a, 0, a.Edges[i]) {
				okInd = true
			}
		}
	case *ssa.BinOp: // range over a slice: index = phi(-1, index) + 1
		if phi, ok := a.X.(*ssa.Phi); ok && isIncr(a, phi) && isInduction(phi, -1, a) {
			okInd = true
		}
	}
	if !okInd {
		return nil, "the loop index is not a counter starting at 0 and incremented by one per iteration"
	}
	for b := range l.Body {
		if b == h {
			continue
		}
		for _, sc := range b.Succs {
			if !l.Body[sc] && !errorExitOnly(sc, l) {
				return nil, "the loop body can leave the loop early (break, return or goto)"
			}
		}
	}
	return cond.Y, ""
}

// errorExitOnly: every path from b ends in a panic or in a return of a non-nil error without re-entering the loop.
func errorExitOnly(b *ssa.BasicBlock, l *loopInfo) bool {
	for rb := range reachableBlocks(b, true) {
		if l.Body[rb] {
			return false
		}
		switch x := rb.Instrs[len(rb.Instrs)-1].(type) {
		case *ssa.Return:
			if len(x.Results) == 0 {
				return false
			}
			last := x.Results[len(x.Results)-1]
			if !isErrorType(last.Type()) || mayBeNilResult(x, last) {
				return false
			}
		}
	}
	return true
}

// appendCount: how many elements one iteration of l appends to the slice phi (bit 0: none, 1: one, 2: more/unknown);
// arrays are the variadic argument arrays holding the appended elements.
func appendCount(l *loopInfo, phi *ssa.Phi) (count uint8, appended []ssa.Value, ok bool) {
	C := map[ssa.Value]uint8{phi: 1}
	var nodes []ssa.Value
	for b := range l.Body {
		for _, ins := range b.Instrs {
			switch x := ins.(type) {
			case *ssa.Call:
				if bi, isB := x.Call.Value.(*ssa.Builtin); isB && bi.Name() == "append" && len(x.Call.Args) == 2 {
					nodes = append(nodes, x)
				}
			case *ssa.Phi:
				if x != phi && types.Identical(x.Type(), phi.Type()) {
					nodes = append(nodes, x)
				}
			}
		}
	}
	sort.Slice(nodes, func(i, j int) bool { return nodes[i].Name() < nodes[j].Name() })
	add := func(c uint8, k int) uint8 {
		var r uint8
		for i := 0; i < 3; i++ {
			if c&(1<<uint(i)) != 0 {
				n := i + k
				if n > 2 {
					n = 2
				}
				r |= 1 << uint(n)
			}
		}
		return r
	}
	for changed, n := true, 0; changed && n < 1000; n++ {
		changed = false
		for _, v := range nodes {
			var c uint8
			switch x := v.(type) {
			case *ssa.Call:
				if cx := C[x.Call.Args[0]]; cx != 0 {
					k := 2
					if args, ok := fmtVarargs(x.Call.Args[1]); ok {
						k = len(args)
					}
					c = add(cx, k)
				}
			case *ssa.Phi:
				for _, e := range x.Edges {
					c |= C[e]
				}
			}
			if u := C[v] | c; u != C[v] {
				C[v] = u
				changed = true
			}
		}
	}
	for i, p := range l.Head.Preds {
		if !l.Head.Dominates(p) {
			continue
		}
		c := C[phi.Edges[i]]
		if c == 0 {
			return 0, nil, false
		}
		count |= c
	}
	for _, v := range nodes {
		if x, isCall := v.(*ssa.Call); isCall && C[x] != 0 {
			if args, ok := fmtVarargs(x.Call.Args[1]); ok {
				appended = append(appended, args...)
			}
		}
	}
	return count, appended, count != 0
}

func startsWithMarker(alts []string, marker string) bool {
	if len(alts) == 0 || marker == "" {
		return false
	}
	for _, a := range alts {
		if !strings.HasPrefix(a, marker) || len(a) == len(marker) || !isWS(a[len(marker)]) {
			return false
		}
	}
	return true
}

func ruleR18_2(w *World, r *Report) {
	const id = "R18.2"
	r.Rule(id, "in every `p cnf <vars> <clauses>` header the clause count is the sum of the trip counts of the loops that write one non-comment line each to the same output", 3)
	t := newTextCtx(w)
	var eff *Effects
	keys := keyer{}
	for _, fn := range w.allPrinterFns(r, id) {
		var headers []*ssa.Call
		allInstrs(fn, func(ins ssa.Instruction) {
			call, ok := ins.(*ssa.Call)
			if !ok {
				return
			}
			pkg, name := stdCallee(&call.Call)
			if pkg != "fmt" || (name != "Sprintf" && name != "Fprintf" && name != "Printf") {
				return
			}
			fi := 0
			if name == "Fprintf" {
				fi = 1
			}
			if f, ok := constString(call.Call.Args[fi]); ok && strings.HasPrefix(strings.TrimSpace(f), "p cnf") {
				headers = append(headers, call)
			}
		})
		for _, h := range headers {
			key := keys.uniq(w.FuncName(fn) + ": p cnf header")
			pos := w.InstrPos(h)
			bad, detail := checkHeader(w, t, &eff, fn, h)
			switch bad {
			case 0:
				r.OK(id, key, pos, detail)
			case 1:
				r.Bad(id, key, pos, detail)
			default:
				r.Unk(id, key, pos, detail)
			}
		}
	}
}

// checkHeader returns 0 (holds), 1 (violated) or 2 (cannot decide) and an explanation.
func checkHeader(w *World, t *textCtx, eff **Effects, fn *ssa.Function, h *ssa.Call) (int, string) {
	_, name := stdCallee(&h.Call)
	fi := 0
	if name == "Fprintf" {
		fi = 1
	}
	format, _ := constString(h.Call.Args[fi])
	args, ok := fmtVarargs(h.Call.Args[fi+1])
	nverbs := 0
	for _, p := range parseFormat(format) {
		if p.verb != 0 {
			if p.verb != 'd' || p.mods != "" {
				return 2, fmt.Sprintf("header format %q uses a verb other than %%d", format)
			}
			nverbs++
		}
	}
	// a self-contained rendering: literal clause count followed, in the same text, by exactly that many lines
	// (`"p cnf %d 1\n0\n"`, the unsatisfiable problem)
	if nverbs == 1 {
		if i := strings.Index(format, "\n"); i >= 0 {
			head := strings.Fields(format[:i])
			rest := strings.Split(strings.TrimSuffix(format[i+1:], "\n"), "\n")
			if len(head) == 4 && head[0] == "p" && head[2] == "%d" {
				if cnt, err := strconv.Atoi(head[3]); err == nil && format[i+1:] != "" && cnt == len(rest) {
					return 0, fmt.Sprintf("self-contained text: the header announces %d clause line(s) and the same text holds exactly that many", cnt)
				}
			}
		}
	}
	if !ok || nverbs != 2 || len(args) != 2 {
		return 2, fmt.Sprintf("header format %q does not have exactly two resolvable %%d arguments", format)
	}
	fields := map[string]bool{}
	want := countTerms(w, args[1], fields)
	sort.Strings(want)

	// which output does the header go to?
	mech, sink, fam := "", ssa.Value(nil), map[ssa.Value]bool(nil)
	switch name {
	case "Fprintf":
		mech, sink = "sink", sinkOf(h.Call.Args[0])
	case "Printf":
		mech, sink = "sink", stdoutSink
	default:
		for _, ref := range *h.Referrers() {
			switch x := ref.(type) {
			case *ssa.BinOp, *ssa.Phi:
				mech = "concat"
			case *ssa.Store:
				if ia, ok := x.Addr.(*ssa.IndexAddr); ok && x.Val == h {
					base := ia.X
					if sl, ok := base.(*ssa.Alloc); ok { // variadic array of an append
						for _, r2 := range *sl.Referrers() {
							if s2, ok := r2.(*ssa.Slice); ok {
								for _, r3 := range *s2.Referrers() {
									if c3, ok := r3.(*ssa.Call); ok {
										base = c3
									}
								}
							}
						}
					}
					mech = "slice"
					fam, _, _ = sliceFamily(base)
				}
			case *ssa.Call:
				if e := t.emissionOf(x); e != nil {
					mech, sink = "sink", e.Sink
				}
			}
		}
	}
	if mech == "" {
		return 2, "cannot tell where the header text goes (not concatenated, written to a writer or stored in a joined slice)"
	}

	ems := map[ssa.Instruction]*emission{}
	if mech == "sink" {
		for _, e := range t.emissionsIn(fn) {
			ems[e.Instr] = e
		}
	}
	var got []string
	var notes []string
	pivot := ssa.Instruction(h)
	for _, l := range loopsOf(w, fn) {
		if l.Depth != 1 {
			continue
		}
		var item shape
		var texts []string
		found := false
		switch mech {
		case "concat":
			for _, ins := range l.Head.Instrs {
				phi, ok := ins.(*ssa.Phi)
				if !ok {
					break
				}
				if basicInfo(phi.Type())&types.IsString == 0 {
					continue
				}
				it, pieces, isAcc, problem := t.accumItem(l, phi)
				if !isAcc || (it == emptyShape && problem == "") {
					continue
				}
				if problem != "" {
					return 2, l.Desc + ": " + problem
				}
				found, item, texts = true, item.union(it), append(texts, pieces...)
			}
		case "sink":
			for b := range l.Body {
				for _, ins := range b.Instrs {
					if e := ems[ins]; e != nil && e.Sink == sink {
						texts = append(texts, e.Text...)
					}
				}
			}
			if it := sinkItem(l, ems, sink, nil); !it.bottom() && it != emptyShape {
				found, item = true, it
			}
		case "slice":
			for _, ins := range l.Head.Instrs {
				phi, ok := ins.(*ssa.Phi)
				if !ok {
					break
				}
				if !fam[phi] {
					continue
				}
				cnt, appended, ok := appendCount(l, phi)
				if !ok {
					return 2, l.Desc + ": the slice of lines is replaced rather than appended to"
				}
				if cnt == 1 {
					continue // nothing appended by this loop
				}
				found = true
				if cnt != 2 {
					return 1, l.Desc + ": an iteration does not append exactly one line to the slice of lines"
				}
				for _, a := range appended {
					alts := t.eval(a, nil)
					texts = append(texts, alts...)
					if s := shapeOfAlts(alts); s.nl != n0 {
						return 2, l.Desc + ": an appended line may itself contain a newline: " + showAlts(alts)
					}
				}
				item = shape{cUnk, cUnk, n1}
			}
		}
		if !found {
			continue
		}
		if startsWithMarker(texts, "c") {
			notes = append(notes, l.Desc+" writes comment lines")
			continue
		}
		if item.nl != n1 {
			if item.nl&nU != 0 {
				return 2, l.Desc + ": cannot count the lines written per iteration: " + showAlts(texts)
			}
			return 1, l.Desc + ": an iteration does not write exactly one line: " + showAlts(texts)
		}
		bound, why := tripCount(l)
		if bound == nil {
			return 2, l.Desc + ": " + why
		}
		terms := countTerms(w, bound, fields)
		got = append(got, terms...)
		notes = append(notes, fmt.Sprintf("%s writes one line per iteration, %s iterations", l.Desc, strings.Join(terms, "+")))
	}
	if mech == "sink" {
		// loops moved into helpers that receive the same output: `writeClauses(cnf, w)` called after the header
		for _, ci := range callsIn(fn) {
			c, ok := ci.(*ssa.Call)
			if !ok || c == h || !instrReachableFrom(pivot, c) {
				continue
			}
			g := c.Call.StaticCallee()
			if g == nil || len(g.Blocks) == 0 || !w.InModule(w.unwrap(g)) {
				continue
			}
			g = w.unwrap(g)
			var gsink ssa.Value
			for i, a := range c.Call.Args {
				if sinkOf(a) == sink && sink != stdoutSink && i < len(g.Params) {
					gsink = g.Params[i]
				}
			}
			if gsink == nil {
				continue
			}
			gems := map[ssa.Instruction]*emission{}
			for _, e := range t.emissionsIn(g) {
				gems[e.Instr] = e
			}
			subst := map[ssa.Value]string{}
			for i, a := range c.Call.Args {
				if i < len(g.Params) {
					subst[g.Params[i]] = accessPath(w, a, fields)
				}
			}
			for _, l := range loopsOf(w, g) {
				if l.Depth != 1 {
					continue
				}
				var texts []string
				for b := range l.Body {
					for _, ins := range b.Instrs {
						if e := gems[ins]; e != nil && e.Sink == gsink {
							texts = append(texts, e.Text...)
						}
					}
				}
				it := sinkItem(l, gems, gsink, nil)
				if it.bottom() || it == emptyShape {
					continue
				}
				desc := w.FuncName(g) + " (called at " + w.InstrPos(c) + ") " + l.Desc
				if startsWithMarker(texts, "c") {
					notes = append(notes, desc+" writes comment lines")
					continue
				}
				if it.nl != n1 {
					if it.nl&nU != 0 {
						return 2, desc + ": cannot count the lines written per iteration: " + showAlts(texts)
					}
					return 1, desc + ": an iteration does not write exactly one line: " + showAlts(texts)
				}
				bound, why := tripCount(l)
				if bound == nil {
					return 2, desc + ": " + why
				}
				// the helper must run exactly once whenever the function succeeds
				if inLoop(fn, c.Block()) {
					return 2, desc + ": the helper is called inside a loop"
				}
				okAll := true
				allInstrs(fn, func(ins ssa.Instruction) {
					ret, isRet := ins.(*ssa.Return)
					if !isRet || !instrReachableFrom(pivot, ret) || instrDominates(c, ret) {
						return
					}
					for _, rv := range ret.Results {
						if k, isK := rv.(*ssa.Const); isK && k.IsNil() {
							okAll = false // a success return that bypasses the helper
						}
					}
				})
				if !okAll {
					return 1, desc + ": the function can return successfully without calling the helper that writes these lines"
				}
				accessSubst = subst
				terms := countTerms(w, bound, fields)
				accessSubst = nil
				got = append(got, terms...)
				notes = append(notes, fmt.Sprintf("%s writes one line per iteration, %s iterations", desc, strings.Join(terms, "+")))
			}
		}
	}
	if mech == "slice" {
		// the slice must be joined with exactly one newline per element
		joined := false
		for m := range fam {
			if m.Referrers() == nil {
				continue
			}
			for _, ref := range *m.Referrers() {
				if c, ok := ref.(*ssa.Call); ok {
					if pkg, nm := stdCallee(&c.Call); pkg == "strings" && nm == "Join" && len(c.Call.Args) == 2 && c.Call.Args[0] == m {
						joined = true
						if s := shapeOfAlts(t.eval(c.Call.Args[1], nil)); s.nl != n1 {
							return 2, "the lines are not joined with exactly one newline"
						}
					}
				}
			}
		}
		if !joined {
			return 2, "the slice holding the header is never handed to strings.Join"
		}
	}
	sort.Strings(got)
	// the summands must denote the same values when the header is built and when the loops run
	if len(fields) > 0 {
		if *eff == nil {
			*eff = w.effects()
		}
		for _, b := range fn.Blocks {
			for _, ins := range b.Instrs {
				if ins == pivot || !(instrReachableFrom(pivot, ins)) {
					continue
				}
				switch x := ins.(type) {
				case *ssa.Store:
					if f, ok := rootField(x.Addr); ok && fields[strings.TrimSuffix(f, "[]")] && !localBase(x.Addr) {
						return 2, "the function writes " + f + " after building the header"
					}
				case ssa.CallInstruction:
					for _, callee := range w.Callees[x] {
						for f := range fields {
							if (*eff).WritesAny(callee, f) {
								return 2, fmt.Sprintf("%s, called after the header is built, may write %s", w.FuncName(callee), f)
							}
						}
					}
				}
			}
		}
	}
	detail := fmt.Sprintf("header count = %s; %s", strings.Join(want, " + "), strings.Join(notes, "; "))
	if strings.Join(want, "+") != strings.Join(got, "+") {
		return 1, fmt.Sprintf("the header announces %s clause lines but the loops write %s: %s", strings.Join(want, " + "), strings.Join(got, " + "), detail)
	}
	if len(got) == 0 {
		return 2, "no loop writing clause lines was found; " + detail
	}
	return 0, detail
}

// ---------- R18.3 fixed tokens ----------

// tokenRuns splits a template into its fixed tokens: maximal runs of literal characters that are neither blank nor
// digits. A run glued to unknown text is reported in unresolved. Comment lines (first token = comment marker) and the
// word after the header marker are exempt: they are free text of the format.
func tokenRuns(alt string, fam printerFamily) (tokens []string, unresolved []string) {
	for _, line := range strings.Split(alt, "\n") {
		type run struct {
			s            string
			gluedUnknown bool
		}
		var runs []run
		cur := ""
		glued := false
		prevUnknown := false
		flush := func(nextUnknown bool) {
			if cur != "" {
				runs = append(runs, run{cur, glued || nextUnknown})
			}
			cur, glued = "", false
		}
		for i := 0; i < len(line); i++ {
			c := line[i]
			switch {
			case c == mStr || c == mAny:
				flush(true)
				prevUnknown = true
				continue
			case isWS(c) || c == mNum || (c >= '0' && c <= '9'):
				flush(false)
			default:
				if cur == "" && prevUnknown {
					glued = true
				}
				cur += string(c)
			}
			prevUnknown = false
		}
		flush(false)
		for i, rn := range runs {
			if i == 0 && rn.s == fam.Comment {
				tokens = append(tokens, rn.s)
				break // rest of a comment line is free text
			}
			if i == 1 && fam.Header != "" && runs[0].s == fam.Header {
				continue // format name after the header marker: positional, not compared
			}
			if rn.gluedUnknown {
				unresolved = append(unresolved, rn.s)
				continue
			}
			tokens = append(tokens, rn.s)
		}
	}
	return tokens, unresolved
}

// parserTokens collects what the parser compares input text against: string constants in ==, != and switch, byte and
// rune constants compared with ==/!=, constant arguments of the strings predicates; "+" and "-" when the parser
// converts numbers with strconv.
func parserTokens(w *World, entry *ssa.Function) map[string]string {
	out := map[string]string{}
	for _, fn := range w.SortedFns(w.Reachable(entry)) {
		allInstrs(fn, func(ins ssa.Instruction) {
			switch x := ins.(type) {
			case *ssa.BinOp:
				if x.Op != token.EQL && x.Op != token.NEQ {
					return
				}
				for _, op := range []ssa.Value{x.X, x.Y} {
					k, ok := op.(*ssa.Const)
					if !ok {
						continue
					}
					if s, ok := constString(k); ok && s != "" {
						out[s] = w.FuncName(fn)
					} else if b, ok := k.Type().(*types.Basic); ok && (b.Kind() == types.Uint8 || b.Kind() == types.Int32 || b.Kind() == types.UntypedRune) {
						if n, ok := constInt(k); ok && n > 32 && n < 127 {
							out[string(rune(n))] = w.FuncName(fn)
						}
					}
				}
			case *ssa.Call:
				pkg, name := stdCallee(&x.Call)
				switch pkg {
				case "strings":
					switch name {
					case "HasPrefix", "HasSuffix", "TrimPrefix", "TrimSuffix", "Contains", "EqualFold", "Index", "Split", "Cut":
						for _, a := range x.Call.Args[1:] {
							if s, ok := constString(a); ok && s != "" {
								out[s] = w.FuncName(fn)
							}
						}
					}
				case "strconv":
					if name == "Atoi" || name == "ParseInt" {
						for _, s := range []string{"+", "-"} {
							if _, ok := out[s]; !ok {
								out[s] = "strconv." + name + " in " + w.FuncName(fn)
							}
						}
					}
				}
			}
		})
	}
	return out
}

// emittedTexts evaluates every piece of text a printer function builds: formatted strings, concatenations, returned
// strings, elements stored in string slices, text written to writers, separators.
func (t *textCtx) emittedTexts(fn *ssa.Function) map[string]ssa.Instruction {
	out := map[string]ssa.Instruction{}
	add := func(v ssa.Value, at ssa.Instruction) {
		if v == nil || basicInfo(v.Type())&types.IsString == 0 {
			return
		}
		for _, a := range t.eval(v, nil) {
			if _, ok := out[a]; !ok {
				out[a] = at
			}
		}
	}
	allInstrs(fn, func(ins ssa.Instruction) {
		if e := t.emissionOf(ins); e != nil {
			if e.Sink == stdoutSink {
				return
			}
			if g, ok := e.Sink.(*ssa.Global); ok && g.Name() == "Stderr" {
				return
			}
			for _, a := range e.Text {
				if _, ok := out[a]; !ok {
					out[a] = ins
				}
			}
			return
		}
		switch x := ins.(type) {
		case *ssa.BinOp:
			if x.Op == token.ADD {
				add(x, ins)
			}
		case *ssa.Return:
			for _, res := range x.Results {
				add(res, ins)
			}
		case *ssa.Store:
			if _, ok := x.Addr.(*ssa.IndexAddr); ok {
				add(x.Val, ins)
			}
		case *ssa.Call:
			pkg, name := stdCallee(&x.Call)
			if pkg == "fmt" && name == "Sprintf" {
				add(x, ins)
			}
			if pkg == "strings" && name == "Join" && len(x.Call.Args) == 2 {
				add(x.Call.Args[1], ins)
			}
		}
	})
	return out
}

func ruleR18_3(w *World, r *Report) {
	const id = "R18.3"
	r.Rule(id, "every fixed token in the constant texts of a printer (outside comment lines) is a token the corresponding parser compares its input against, or a sign accepted by strconv", 12)
	t := newTextCtx(w)
	for _, fam := range printerFamilies {
		fns, missing := w.printerFns(fam)
		for _, m := range missing {
			r.Unk(id, fam.Name+": printer "+m, "-", "printer entry point not found")
		}
		parser := w.Func(fam.Parser[0], fam.Parser[1])
		if parser == nil {
			r.Unk(id, fam.Name+": parser", "-", "parser "+fam.Parser[0]+"."+fam.Parser[1]+" not found")
			continue
		}
		accepted := parserTokens(w, parser)
		type occ struct {
			at  ssa.Instruction
			alt string
			fn  *ssa.Function
		}
		toks := map[string]occ{}
		unres := map[string]occ{}
		for _, fn := range fns {
			texts := t.emittedTexts(fn)
			var alts []string
			for a := range texts {
				alts = append(alts, a)
			}
			sort.Strings(alts)
			for _, a := range alts {
				ts, us := tokenRuns(a, fam)
				for _, tk := range ts {
					if _, ok := toks[tk]; !ok {
						toks[tk] = occ{texts[a], a, fn}
					}
				}
				for _, u := range us {
					if _, ok := unres[u]; !ok {
						unres[u] = occ{texts[a], a, fn}
					}
				}
			}
		}
		var names []string
		for tk := range toks {
			names = append(names, tk)
		}
		sort.Strings(names)
		for _, tk := range names {
			o := toks[tk]
			key := fmt.Sprintf("%s: token %q", fam.Name, tk)
			where := fmt.Sprintf("emitted by %s in %s", w.FuncName(o.fn), showAlt(o.alt))
			if by, ok := accepted[tk]; ok {
				r.OK(id, key, w.InstrPos(o.at), where+"; compared by "+by)
			} else {
				r.Bad(id, key, w.InstrPos(o.at), fmt.Sprintf("%s, but %s.%s never compares its input against %q (it knows: %s)", where, fam.Parser[0], fam.Parser[1], tk, joinSortedKeys(accepted)))
			}
		}
		names = names[:0]
		for u := range unres {
			if _, ok := toks[u]; !ok {
				names = append(names, u)
			}
		}
		sort.Strings(names)
		for _, u := range names {
			o := unres[u]
			key := fmt.Sprintf("%s: token %q", fam.Name, u)
			if _, ok := accepted[u]; ok {
				// the literal part is a parser token; what it is glued to is not known
				r.Unk(id, key, w.InstrPos(o.at), fmt.Sprintf("emitted by %s glued to text that is not known statically: %s", w.FuncName(o.fn), showAlt(o.alt)))
			} else {
				r.Bad(id, key, w.InstrPos(o.at), fmt.Sprintf("emitted by %s in %s, but the parser never compares its input against %q", w.FuncName(o.fn), showAlt(o.alt), u))
			}
		}
		if len(toks) == 0 {
			r.Unk(id, fam.Name+": tokens", "-", "no fixed token found in the printers of this family")
		}
	}
}

func joinSortedKeys(m map[string]string) string {
	var ks []string
	for k := range m {
		ks = append(ks, strconv.Quote(k))
	}
	sort.Strings(ks)
	return strings.Join(ks, " ")
}
