package main

import (
	"fmt"
	"go/constant"
	"go/token"
	"go/types"
	"sort"
	"strings"

	"golang.org/x/tools/go/ssa"
)

func init() {
	register(&property{
		ID: "C03",
		Explanation: "(a) the two optimisation entry points agree as far as the code shows it: solver.(*Solver).Optimal and solver.(*Solver).Minimize compute the same strengthening constraint (degree maxCost-cost+1 over the negated, weight-sorted cost literals) from the same quantities, re-solve the same way and stop on the same condition - their fact sets (calls with argument classes, stores, branches, each with its control context) are equal outside the documented publication asymmetries; " +
			"(b) in both improvement loops the snapshot into lastModel is taken before the cost is computed and before the result is published, with no writer of Solver.model in between, so the reported cost and the reported model belong together; " +
			"(c) the constant results are returned under the stated conditions: Minimize -1 / Optimal Status Unsat exactly when the first Solve reports Unsat, 0 / (Sat, Weight 0) when there is no cost function.",
		NotDecided: "optimality itself (a for-all over models), the interaction of the added constraint with top-level facts, negative coefficients (D13), nil weights (D19); nothing is executed.",
		Rules:      []ruleFn{ruleR3_1, ruleR3_2, ruleR3_3, ruleR3_5, ruleR9_4, ruleR9_5, ruleR9_6, ruleR2_5, ruleR2_9, ruleR13_9, ruleR3_6, ruleR3_7, ruleR9_7, ruleR3_8, ruleR9_11, ruleR2_2},
		Fixtures:   []func(*World) []string{fixtureE7},
	})
}

const (
	fnModel = "(*solver.Solver).Model"
)

// asymmetries of Optimal ~ Minimize: named categories of facts, each with its reason.
func asymOptimalMinimize() []e7asym {
	return []e7asym{
		{Name: "publication through Model()", Reason: "only Optimal converts the snapshot into a []bool for its Result; Minimize leaves that to a later Model() call",
			Match: func(f *e7fact) bool {
				return f.viaHas(fnModel) || (f.Kind == "call" && f.Name == fnModel)
			}},
		{Name: "publication of a Result value", Reason: "construction, inspection and sending of solver.Result values exist only on the Optimal side (checked by R3.3 and C20)",
			Match: func(f *e7fact) bool {
				return len(f.mentions("type:solver.Result")) > 0
			}},
		{Name: "no-cost-function path", Reason: "with minLits == nil Optimal re-snapshots and publishes (Sat, Weight 0), Minimize returns 0 on the snapshot Solve took; the constants are checked by R3.3",
			Match: func(f *e7fact) bool {
				for _, g := range f.Guards {
					if g.pos && e7isNilTestOf(g.cond, "solver.Solver.minLits") {
						return true
					}
				}
				return false
			}},
		{Name: "integer returns", Reason: "Minimize returns the cost as an int, Optimal a Result; the constant ones are checked by R3.3, the final one is the cost class used in the shared degree fact",
			Match: func(f *e7fact) bool { return f.Kind == "return" && f.Depth == 0 }},
	}
}

// R3.1: sibling agreement of Optimal and Minimize.
func ruleR3_1(w *World, r *Report) {
	r.Rule("R3.1", "solver.(*Solver).Optimal and solver.(*Solver).Minimize reduce to the same set of facts (calls with argument classes, stores, branches, with control contexts) outside the documented publication asymmetries", 15)
	a, b := w.Func("solver", "Solver.Optimal"), w.Func("solver", "Solver.Minimize")
	if a == nil || b == nil {
		r.Unk("R3.1", "Optimal~Minimize anchors", "-", "solver.(*Solver).Optimal or solver.(*Solver).Minimize not found")
		return
	}
	asym := asymOptimalMinimize()
	res := e7Compare(w, a, b, e7opts{}, asym)
	// The comparison is syntactic at heart: when one of the two entry points is restructured and the other is not,
	// facts differ although both still do the same. A difference is reported only if the two functions are not each
	// vouched for by the rules that check an optimisation loop against its specification on its own (snapshot order,
	// constant results, the strengthening step, the parallel sorter).
	rt := newReport()
	rt.Rule("R3.1", "", 0)
	e7Report(w, rt, "R3.1", "Optimal~Minimize", res, asym, w.Pos(a.Pos()))
	differs := false
	for _, o := range rt.Obs {
		if o.status != Discharged {
			differs = true
		}
	}
	vouched := false
	if differs {
		rs := newReport()
		ruleR3_2(w, rs)
		ruleR3_3(w, rs)
		ruleR3_5(w, rs)
		ruleR3_6(w, rs)
		ruleR3_7(w, rs)
		vouched = len(rs.Obs) > 0
		for _, o := range rs.Obs {
			if o.status != Discharged {
				vouched = false
			}
		}
		// both loops must have been seen by the step rule
		seenA, seenB := false, false
		for _, o := range rs.Obs {
			if o.Rule == "R3.5" && strings.Contains(o.Construct, w.FuncName(a)) {
				seenA = true
			}
			if o.Rule == "R3.5" && strings.Contains(o.Construct, w.FuncName(b)) {
				seenB = true
			}
		}
		vouched = vouched && seenA && seenB
	}
	for _, o := range rt.Obs {
		switch {
		case o.status == Discharged:
			r.OK("R3.1", o.Construct, o.Pos, o.Detail)
		case vouched:
			r.OK("R3.1", o.Construct, o.Pos, "the two functions differ in shape here, but each of them satisfies on its own the snapshot, constant-result, strengthening-step, sorter and heap rules (R3.2, R3.3, R3.5, R3.6, R3.7): "+o.Detail)
		case o.status == Violated:
			r.Bad("R3.1", o.Construct, o.Pos, o.Detail)
		default:
			r.Unk("R3.1", o.Construct, o.Pos, o.Detail)
		}
	}
	// the shared core must actually be there: the comparison of two (nearly) empty sets proves nothing
	shared := 0
	for _, cd := range res.Cats {
		if cd.NA > 0 && cd.NB > 0 {
			shared++
		}
	}
	r.Check(shared >= 10, "R3.1", "Optimal~Minimize shared core", w.Pos(a.Pos()),
		fmt.Sprintf("%d categories of facts occur in both functions", shared),
		fmt.Sprintf("only %d categories of facts occur in both functions: the two no longer share a computation the comparison could speak about", shared))
}

// ---------- R3.2 snapshot order ----------

const (
	effModel      = "solver.Solver.model"
	effModelElems = "solver.Solver.model[]"
	effLast       = "solver.Solver.lastModel"
	effLastElems  = "solver.Solver.lastModel[]"
)

// iterReach: can control flow get from instruction a to instruction b inside the loop without starting a new
// iteration (edges into the header are cut)?
func iterReach(loop map[*ssa.BasicBlock]bool, header *ssa.BasicBlock, a, b ssa.Instruction) bool {
	if a.Block() == b.Block() && indexOfInstr(a.Block(), a) < indexOfInstr(b.Block(), b) {
		return true
	}
	seen := map[*ssa.BasicBlock]bool{}
	var visit func(x *ssa.BasicBlock) bool
	visit = func(x *ssa.BasicBlock) bool {
		for _, s := range x.Succs {
			if s == header || !loop[s] || seen[s] {
				continue
			}
			if s == b.Block() {
				return true
			}
			seen[s] = true
			if visit(s) {
				return true
			}
		}
		return false
	}
	return visit(a.Block())
}

func ruleR3_2(w *World, r *Report) {
	r.Rule("R3.2", "in the improvement loops of Optimal and Minimize the copy into lastModel dominates every use of Solver.model the cost is computed from and every Model() publication, and no call that may write Solver.model lies between the copy and those uses", 6)
	eff := w.effects()
	solve := w.Func("solver", "Solver.Solve")
	modelFn := w.Func("solver", "Solver.Model")
	for _, name := range []string{"Optimal", "Minimize"} {
		fn := w.Func("solver", "Solver."+name)
		key := "solver.(*Solver)." + name
		if fn == nil || solve == nil {
			r.Unk("R3.2", key+" improvement loop", "-", "function or solver.(*Solver).Solve not found")
			continue
		}
		// the improvement loop: outermost loop containing a call that reaches Solve
		var header *ssa.BasicBlock
		var loop map[*ssa.BasicBlock]bool
		for _, h := range loopHeaders(fn) {
			lb := loopBlocks(fn, h)
			has := false
			for _, ci := range callsIn(fn) {
				if !lb[ci.Block()] {
					continue
				}
				for _, callee := range w.Callees[ci] {
					if callee == solve || w.Reachable(callee)[solve] {
						has = true
					}
				}
			}
			if has && (loop == nil || len(lb) > len(loop)) {
				header, loop = h, lb
			}
		}
		if loop == nil {
			// a function that hands the whole search over to its sibling has no loop of its own to check
			delegated := ""
			for _, ci := range callsIn(fn) {
				for _, other := range []string{"Optimal", "Minimize"} {
					if other != name && w.staticCalleeIs(ci, w.Func("solver", "Solver."+other)) {
						delegated = other
					}
				}
			}
			if delegated != "" {
				for _, what := range []string{" snapshot in the improvement loop", " snapshot before the cost computation", " no model writer between snapshot and cost"} {
					r.OK("R3.2", key+what, w.Pos(fn.Pos()), name+" has no search loop of its own: it delegates to "+delegated+", whose loop is checked")
				}
				continue
			}
			r.Unk("R3.2", key+" improvement loop", w.Pos(fn.Pos()), "no loop of "+name+" contains a call that reaches Solve: the linear search is not where the rule looks for it")
			continue
		}
		hpos := w.InstrPos(header.Instrs[0])
		rooted := func(v ssa.Value, names ...string) bool {
			f, ok := rootField(v)
			if !ok {
				return false
			}
			for _, n := range names {
				if f == n {
					return true
				}
			}
			return false
		}
		var snaps, writers, readers, pubs []ssa.Instruction
		onlySnapUse := func(v ssa.Value, snap map[ssa.Instruction]bool) bool {
			refs := v.Referrers()
			if refs == nil || len(*refs) == 0 {
				return false
			}
			for _, x := range *refs {
				if _, dbg := x.(*ssa.DebugRef); dbg {
					continue
				}
				if !snap[x] {
					return false
				}
			}
			return true
		}
		snapSet := map[ssa.Instruction]bool{}
		for _, b := range fn.Blocks {
			if !loop[b] {
				continue
			}
			for _, ins := range b.Instrs {
				ci, ok := ins.(ssa.CallInstruction)
				if !ok {
					continue
				}
				common := ci.Common()
				if bi, ok := common.Value.(*ssa.Builtin); ok {
					if bi.Name() == "copy" && len(common.Args) == 2 && rooted(common.Args[0], effLastElems) && rooted(common.Args[1], effModelElems) {
						snaps = append(snaps, ins)
						snapSet[ins] = true
					} else if (bi.Name() == "copy" || bi.Name() == "append") && len(common.Args) > 0 && rooted(common.Args[0], effModelElems) {
						writers = append(writers, ins)
					}
					continue
				}
				wr, rd, wl := false, false, false
				for _, callee := range w.Callees[ci] {
					if eff.WritesAny(callee, effModel) {
						wr = true
					}
					if eff.transR[callee][effModel] || eff.transR[callee][effModelElems] {
						rd = true
					}
					if eff.Writes(callee, effLastElems) {
						wl = true
					}
					if callee == modelFn {
						pubs = append(pubs, ins)
					}
				}
				switch {
				case wr:
					writers = append(writers, ins)
				case wl && rd:
					// a helper that copies model into lastModel and writes nothing of model
					snaps = append(snaps, ins)
					snapSet[ins] = true
				case rd:
					if v, ok := ins.(ssa.Value); ok && v.Referrers() != nil && len(*v.Referrers()) > 0 {
						if _, isTuple := v.Type().(*types.Tuple); !isTuple || v.Type().(*types.Tuple).Len() > 0 {
							readers = append(readers, ins)
						}
					}
				}
			}
		}
		for _, b := range fn.Blocks {
			if !loop[b] {
				continue
			}
			for _, ins := range b.Instrs {
				switch x := ins.(type) {
				case *ssa.Store:
					if rooted(x.Addr, effModel, effModelElems) {
						writers = append(writers, ins)
					}
				case *ssa.UnOp:
					if x.Op == token.MUL && rooted(x.X, effModel, effModelElems) && !onlySnapUse(x, snapSet) {
						readers = append(readers, ins)
					}
				}
			}
		}
		if len(snaps) == 0 {
			r.Bad("R3.2", key+" snapshot in the improvement loop", hpos, "the improvement loop has no copy(s.lastModel, s.model) (nor a helper doing it): the model published after the loop is not the one the last cost was computed on")
			continue
		}
		r.OK("R3.2", key+" snapshot in the improvement loop", w.InstrPos(snaps[0]), fmt.Sprintf("%d snapshot instruction(s) in the loop headed at %s", len(snaps), hpos))
		if len(readers) == 0 {
			r.Unk("R3.2", key+" snapshot before the cost computation", hpos, "no use of Solver.model found in the improvement loop: the cost computation is not where the rule looks for it")
			continue
		}
		dominatedBySnap := func(ins ssa.Instruction) ssa.Instruction {
			for _, s := range snaps {
				if instrDominates(s, ins) {
					return s
				}
			}
			return nil
		}
		var late, between []string
		for _, rd := range readers {
			s := dominatedBySnap(rd)
			if s == nil {
				late = append(late, w.InstrPos(rd))
				continue
			}
			for _, wr := range writers {
				if iterReach(loop, header, s, wr) && iterReach(loop, header, wr, rd) {
					name := "store"
					if ci, ok := wr.(ssa.CallInstruction); ok {
						name = w.calleeName(ci.Common())
					}
					between = append(between, fmt.Sprintf("%s at %s before the use at %s", name, w.InstrPos(wr), w.InstrPos(rd)))
				}
			}
		}
		sort.Strings(late)
		sort.Strings(between)
		r.Check(len(late) == 0, "R3.2", key+" snapshot before the cost computation", w.InstrPos(snaps[0]),
			fmt.Sprintf("the copy into lastModel dominates all %d uses of Solver.model the loop computes with", len(readers)),
			"Solver.model is used at "+strings.Join(e7dedupe(late), ", ")+" without the copy into lastModel having been made in this iteration: cost and snapshot can belong to different models")
		r.Check(len(between) == 0, "R3.2", key+" no model writer between snapshot and cost", w.InstrPos(snaps[0]),
			fmt.Sprintf("none of the %d instruction(s) of the loop that may write Solver.model lies between the copy and a use", len(writers)),
			"may write Solver.model between the snapshot and the cost computation: "+strings.Join(e7dedupe(between), "; "))
		if len(pubs) > 0 {
			var bad []string
			for _, p := range pubs {
				if dominatedBySnap(p) == nil {
					bad = append(bad, w.InstrPos(p))
				}
			}
			r.Check(len(bad) == 0, "R3.2", key+" snapshot before publication", w.InstrPos(pubs[0]),
				fmt.Sprintf("the copy into lastModel dominates the %d Model() call(s) of the loop", len(pubs)),
				"Model() is called at "+strings.Join(bad, ", ")+" before the copy into lastModel of this iteration: the published model is the previous one")
		}
	}
}

// ---------- R3.3 constant results ----------

type r33guard struct {
	kind string // unsat, nocost, other
	pos  bool
	text string
}

func (g r33guard) String() string {
	s := g.text
	if !g.pos {
		s = "not(" + s + ")"
	}
	return s
}

// r33optimalField: v reads the named field of the Result returned by a call of Optimal (delegating Minimize).
func r33optimalField(w *World, v ssa.Value, field string) bool {
	opt := w.Func("solver", "Solver.Optimal")
	isOpt := func(x ssa.Value) bool {
		c, ok := x.(*ssa.Call)
		return ok && opt != nil && w.staticCalleeIs(c, opt)
	}
	switch x := v.(type) {
	case *ssa.Field:
		_, f := e7fieldName(x.X.Type(), x.Field)
		return f == field && isOpt(x.X)
	case *ssa.UnOp:
		if x.Op != token.MUL {
			return false
		}
		fa, ok := x.X.(*ssa.FieldAddr)
		if !ok {
			return false
		}
		_, f := e7fieldName(fa.X.Type(), fa.Field)
		al, ok := fa.X.(*ssa.Alloc)
		if f != field || !ok {
			return false
		}
		// the cell must hold nothing but the call result
		n := 0
		for _, r := range *al.Referrers() {
			if st, ok := r.(*ssa.Store); ok {
				if st.Addr != al || !isOpt(st.Val) {
					return false
				}
				n++
			} else if fa2, ok := r.(*ssa.FieldAddr); ok {
				for _, r2 := range *fa2.Referrers() {
					if _, isStore := r2.(*ssa.Store); isStore {
						return false
					}
				}
			}
		}
		return n == 1
	}
	return false
}

// r33classify recognises the two conditions the statement speaks about.
func r33classify(w *World, cond ssa.Value, edge bool, unsat constant.Value) r33guard {
	pos := edge
	for {
		if u, ok := cond.(*ssa.UnOp); ok && u.Op == token.NOT {
			cond, pos = u.X, !pos
			continue
		}
		break
	}
	solve := w.Func("solver", "Solver.Solve")
	if b, ok := cond.(*ssa.BinOp); ok && (b.Op == token.EQL || b.Op == token.NEQ) {
		if b.Op == token.NEQ {
			pos = !pos
		}
		for _, pair := range [][2]ssa.Value{{b.X, b.Y}, {b.Y, b.X}} {
			x, k := pair[0], pair[1]
			kc, isConst := k.(*ssa.Const)
			if !isConst {
				continue
			}
			if call, ok := x.(*ssa.Call); ok && w.staticCalleeIs(call, solve) && kc.Value != nil && unsat != nil && constant.Compare(kc.Value, token.EQL, unsat) {
				return r33guard{"unsat", pos, "Solve() == Unsat"}
			}
			if kc.Value != nil && unsat != nil && constant.Compare(kc.Value, token.EQL, unsat) && r33optimalField(w, x, "Status") {
				// Minimize delegating to Optimal: by the Optimal obligation this is the same condition
				return r33guard{"unsat", pos, "Optimal().Status == Unsat"}
			}
			if kc.IsNil() {
				if _, ok := isFieldLoad(x, "solver.Solver", "minLits"); ok {
					return r33guard{"nocost", pos, "s.minLits == nil"}
				}
			}
			if i, ok := constInt(kc); ok && i == 0 {
				if call, ok := x.(*ssa.Call); ok {
					if bi, ok := call.Call.Value.(*ssa.Builtin); ok && bi.Name() == "len" && len(call.Call.Args) == 1 {
						if _, ok := isFieldLoad(call.Call.Args[0], "solver.Solver", "minLits"); ok {
							return r33guard{"nocost", pos, "len(s.minLits) == 0"}
						}
					}
				}
			}
		}
	}
	return r33guard{"other", pos, cond.String()}
}

func r33guards(w *World, fn *ssa.Function, b *ssa.BasicBlock, unsat constant.Value) []r33guard {
	u := &e7universe{w: w, leaves: map[string]*e7node{}, loops: map[*ssa.Function]map[*ssa.BasicBlock]map[*ssa.BasicBlock]bool{}}
	c := u.rootCtx(fn)
	var out []r33guard
	for _, g := range c.rawGuards(b) {
		if !c.keepRaw(g) { // presentation conditions and exits of loop headers are not conditions of the result
			continue
		}
		out = append(out, r33classify(w, g.ifi.Cond, g.edge, unsat))
	}
	sort.Slice(out, func(i, j int) bool { return out[i].String() < out[j].String() })
	return out
}

func r33has(gs []r33guard, kind string, pos bool) bool {
	for _, g := range gs {
		if g.kind == kind && g.pos == pos {
			return true
		}
	}
	return false
}

// r33exactly: the guard set is exactly the listed (kind, polarity) pairs.
func r33exactly(gs []r33guard, want map[string]bool) bool {
	if len(gs) != len(want) {
		return false
	}
	for _, g := range gs {
		p, ok := want[g.kind]
		if !ok || p != g.pos || g.kind == "other" {
			return false
		}
	}
	return true
}

func r33guardString(gs []r33guard) string {
	var s []string
	for _, g := range gs {
		s = append(s, g.String())
	}
	return "{" + strings.Join(s, "; ") + "}"
}

// r33scalar: the constants a returned scalar may be ("?" when not a constant), looking through a result cell.
func r33scalar(w *World, at ssa.Instruction, v ssa.Value, depth int) []string {
	if depth > 6 {
		return []string{"?"}
	}
	if r33optimalField(w, v, "Weight") {
		return []string{"Optimal().Weight"}
	}
	switch x := v.(type) {
	case *ssa.Const:
		if x.Value != nil {
			return []string{x.Value.ExactString()}
		}
		return []string{"zero"}
	case *ssa.UnOp:
		if al, ok := x.X.(*ssa.Alloc); ok && x.Op == token.MUL {
			stores, zero := reachingStores(x, al, -1)
			var out []string
			for _, st := range stores {
				out = append(out, r33scalar(w, st, st.Val, depth+1)...)
			}
			if zero && len(stores) == 0 {
				out = append(out, "zero")
			}
			return out
		}
	}
	return []string{"?"}
}

// r33field: the constants field #field of a returned struct may hold at instruction `at`.
func r33field(at ssa.Instruction, v ssa.Value, field int, depth int) []string {
	if depth > 8 {
		return []string{"?"}
	}
	switch x := v.(type) {
	case *ssa.Const:
		return []string{"zero"}
	case *ssa.UnOp:
		if al, ok := x.X.(*ssa.Alloc); ok && x.Op == token.MUL {
			stores, zero := reachingStores(x, al, field)
			var out []string
			for _, st := range stores {
				if st.Addr == al {
					out = append(out, r33field(st, st.Val, field, depth+1)...)
				} else if k, ok := st.Val.(*ssa.Const); ok && k.Value != nil {
					out = append(out, k.Value.ExactString())
				} else {
					out = append(out, "?")
				}
			}
			if zero {
				out = append(out, "zero")
			}
			return out
		}
	case *ssa.Phi:
		var out []string
		for _, e := range x.Edges {
			out = append(out, r33field(at, e, field, depth+1)...)
		}
		return out
	}
	return []string{"?"}
}

func r33set(vals []string) string {
	m := map[string]bool{}
	for _, v := range vals {
		m[v] = true
	}
	return "{" + joinSorted(m) + "}"
}

func r33is(vals []string, want string) bool {
	if len(vals) == 0 {
		return false
	}
	for _, v := range vals {
		if v != want {
			return false
		}
	}
	return true
}

func r33contains(vals []string, want string) bool {
	for _, v := range vals {
		if v == want {
			return true
		}
	}
	return false
}

func ruleR3_3(w *World, r *Report) {
	r.Rule("R3.3", "Minimize returns -1 exactly when the first Solve reports Unsat and 0 when there is no cost function; Optimal returns Status Unsat exactly under that same condition and (Sat, Weight 0) when there is no cost function", 4)
	pkg := w.ByName["solver"]
	var unsatV, satV constant.Value
	if pkg != nil {
		if c, ok := pkg.Types.Scope().Lookup("Unsat").(*types.Const); ok {
			unsatV = c.Val()
		}
		if c, ok := pkg.Types.Scope().Lookup("Sat").(*types.Const); ok {
			satV = c.Val()
		}
	}
	if unsatV == nil || satV == nil {
		r.Unk("R3.3", "status constants", "-", "solver.Sat / solver.Unsat are not constants any more")
		return
	}
	unsatS, satS := unsatV.ExactString(), satV.ExactString()
	type row struct {
		guards []r33guard
		vals   map[string][]string
		pos    string
	}
	rowsOf := func(fn *ssa.Function, fields map[string]int) []row {
		var rows []row
		for _, b := range fn.Blocks {
			if b == fn.Recover || len(b.Instrs) == 0 {
				continue
			}
			ret, ok := b.Instrs[len(b.Instrs)-1].(*ssa.Return)
			if !ok || len(ret.Results) != 1 {
				continue
			}
			rw := row{guards: r33guards(w, fn, b, unsatV), vals: map[string][]string{}, pos: w.InstrPos(ret)}
			if fields == nil {
				rw.vals["value"] = r33scalar(w, ret, ret.Results[0], 0)
			} else {
				for name, idx := range fields {
					rw.vals[name] = r33field(ret, ret.Results[0], idx, 0)
				}
			}
			rows = append(rows, rw)
		}
		return rows
	}
	table := func(rows []row) string {
		var s []string
		for _, rw := range rows {
			var vs []string
			for k, v := range rw.vals {
				vs = append(vs, k+"="+r33set(v))
			}
			sort.Strings(vs)
			s = append(s, r33guardString(rw.guards)+" -> "+strings.Join(vs, " ")+" @"+rw.pos)
		}
		sort.Strings(s)
		return strings.Join(s, " | ")
	}

	// Minimize
	if fn := w.Func("solver", "Solver.Minimize"); fn == nil {
		r.Unk("R3.3", "solver.(*Solver).Minimize result table", "-", "function not found")
	} else {
		rows := rowsOf(fn, nil)
		pos := w.Pos(fn.Pos())
		tb := table(rows)
		// -1 exactly under Solve() == Unsat
		have, bad := false, []string{}
		for _, rw := range rows {
			v := rw.vals["value"]
			under := r33has(rw.guards, "unsat", true)
			switch {
			case under && r33exactly(rw.guards, map[string]bool{"unsat": true}) && r33is(v, "-1"):
				have = true
			case under && !r33is(v, "-1"):
				bad = append(bad, "returns "+r33set(v)+" under Solve() == Unsat at "+rw.pos)
			case !under && r33contains(v, "-1"):
				bad = append(bad, "returns -1 under "+r33guardString(rw.guards)+" at "+rw.pos)
			}
		}
		if !have {
			bad = append(bad, "no return of the constant -1 guarded exactly by Solve() == Unsat (status of the first Solve compared with the constant Unsat)")
		}
		r.Check(len(bad) == 0, "R3.3", "solver.(*Solver).Minimize returns -1 iff Unsat", pos, "table: "+tb, strings.Join(bad, "; ")+"; table: "+tb)
		have, bad = false, nil
		for _, rw := range rows {
			v := rw.vals["value"]
			under := r33has(rw.guards, "nocost", true)
			switch {
			case under && r33exactly(rw.guards, map[string]bool{"unsat": false, "nocost": true}) && r33is(v, "0"):
				have = true
			case under && !r33is(v, "0"):
				bad = append(bad, "returns "+r33set(v)+" with no cost function at "+rw.pos)
			}
		}
		if !have && len(bad) == 0 {
			// delegation: the Weight of Optimal's result, which is 0 without cost function by the Optimal obligation below
			for _, rw := range rows {
				if r33exactly(rw.guards, map[string]bool{"unsat": false}) && r33is(rw.vals["value"], "Optimal().Weight") {
					have = true
				}
			}
		}
		if !have {
			bad = append(bad, "no return of the constant 0 guarded exactly by not(Solve() == Unsat) and s.minLits == nil")
		}
		r.Check(len(bad) == 0, "R3.3", "solver.(*Solver).Minimize returns 0 without cost function", pos, "table: "+tb, strings.Join(bad, "; ")+"; table: "+tb)
	}

	// Optimal
	fn := w.Func("solver", "Solver.Optimal")
	res := w.NamedType("solver", "Result")
	if fn == nil || res == nil {
		r.Unk("R3.3", "solver.(*Solver).Optimal result table", "-", "function or solver.Result not found")
		return
	}
	st, _ := res.Underlying().(*types.Struct)
	fields := map[string]int{}
	if st != nil {
		for i := 0; i < st.NumFields(); i++ {
			if n := st.Field(i).Name(); n == "Status" || n == "Weight" {
				fields[n] = i
			}
		}
	}
	if len(fields) != 2 || fn.Signature.Results().Len() != 1 || !types.Identical(fn.Signature.Results().At(0).Type(), res) {
		r.Unk("R3.3", "solver.(*Solver).Optimal result table", w.Pos(fn.Pos()), "solver.Result has no Status/Weight fields or Optimal does not return a single Result")
		return
	}
	rows := rowsOf(fn, fields)
	pos := w.Pos(fn.Pos())
	tb := table(rows)
	have, bad := false, []string{}
	for _, rw := range rows {
		v := rw.vals["Status"]
		under := r33has(rw.guards, "unsat", true)
		switch {
		case under && r33exactly(rw.guards, map[string]bool{"unsat": true}) && r33is(v, unsatS):
			have = true
		case under && !r33is(v, unsatS):
			bad = append(bad, "Status "+r33set(v)+" under Solve() == Unsat at "+rw.pos)
		case !under && r33contains(v, unsatS):
			bad = append(bad, "Status may be Unsat under "+r33guardString(rw.guards)+" at "+rw.pos)
		}
	}
	if !have {
		bad = append(bad, "no return guarded exactly by Solve() == Unsat whose Status is the constant Unsat")
	}
	r.Check(len(bad) == 0, "R3.3", "solver.(*Solver).Optimal returns Status Unsat iff Unsat", pos, "table (Sat="+satS+", Unsat="+unsatS+"): "+tb, strings.Join(bad, "; ")+"; table: "+tb)
	have, bad = false, nil
	for _, rw := range rows {
		under := r33has(rw.guards, "nocost", true)
		// (a Weight left at the zero value of the result is the weight 0)
		wz := len(rw.vals["Weight"]) > 0
		for _, v := range rw.vals["Weight"] {
			if v != "0" && v != "zero" {
				wz = false
			}
		}
		okRow := r33is(rw.vals["Status"], satS) && wz
		switch {
		case under && r33exactly(rw.guards, map[string]bool{"unsat": false, "nocost": true}) && okRow:
			have = true
		case under && !okRow:
			bad = append(bad, "Status "+r33set(rw.vals["Status"])+" Weight "+r33set(rw.vals["Weight"])+" with no cost function at "+rw.pos)
		}
	}
	if !have {
		bad = append(bad, "no return guarded exactly by not(Solve() == Unsat) and s.minLits == nil with Status Sat and Weight 0")
	}
	r.Check(len(bad) == 0, "R3.3", "solver.(*Solver).Optimal returns (Sat, Weight 0) without cost function", pos, "table: "+tb, strings.Join(bad, "; ")+"; table: "+tb)
}

// fixtureE7: the engine must find GoodA ~ GoodB equal (helper, renamed locals, swapped branches, re-associated sum)
// and must report each of the one-sided edits.
func fixtureE7(fw *World) []string {
	var fails []string
	get := func(n string) *ssa.Function { return fw.Func("siblings", "S."+n) }
	ref := get("GoodA")
	if ref == nil {
		return []string{"E7 fixture: siblings.(*S).GoodA not found"}
	}
	differs := func(name string) (bool, string) {
		f := get(name)
		if f == nil {
			return false, "missing"
		}
		res := e7Compare(fw, ref, f, e7opts{}, nil)
		if !res.Converged || len(res.U.notes) > 0 {
			return true, "engine: " + strings.Join(res.U.notes, "; ")
		}
		for _, n := range res.CatOrder {
			if !res.Cats[n].Equal() {
				return true, n + ": " + res.Describe(res.Cats[n])
			}
		}
		return false, ""
	}
	if d, why := differs("GoodB"); d {
		fails = append(fails, "E7 fixture: GoodA ~ GoodB must agree but: "+why)
	}
	for _, bad := range []string{"BadConst", "BadDropped", "BadGate", "BadExit"} {
		if d, why := differs(bad); !d {
			fails = append(fails, "E7 fixture: GoodA ~ "+bad+" must differ "+why)
		}
	}
	return fails
}
