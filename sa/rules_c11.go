package main

import (
	"fmt"
	"go/ast"
	"go/constant"
	"go/token"
	"go/types"
	"sort"
	"strings"

	"golang.org/x/tools/go/ssa"
)

// C11: boolean formulas (package bf). Rules R11.1 (exhaustive dispatch), R11.2 (identity elements), R11.4 (duality of
// the negation's nnf), R11.5 (truth tables of the derived connectives), R11.6 (guard coverage in the CNF translation).
// Everything is resolved by role: the interface is bf.Formula (exported), its normal-form method is "the method of
// the interface that returns the interface", the connective types are "the dynamic types the exported constructors
// And / Or / Not return", constants are "implementing types without state", and so on.

func init() {
	register(&property{
		ID: "C11",
		Explanation: "(a) no formula tree can reach a panic arm of a type dispatch: the dynamic types that can flow into every type switch over bf.Formula that ends in panic (the negation's normal form, the CNF translation and its switch over the children of a disjunction) are all listed, with the range of the normal-form methods computed by a dynamic-type flow analysis through element containers; " +
			"(b) per n-ary connective the constant ignored while folding is its identity, the constant returned from its own case is absorbing, the value returned when no operand remains is the identity and agrees with what Eval gives for zero operands; the negation's normal form is the De Morgan dual case by case; " +
			"(c) the trees returned by Implies, Eq and Xor have the truth tables of implication, equivalence and exclusive or; " +
			"(d) where the CNF translation introduces an auxiliary variable for a conjunct of a disjunction, its negation is appended to every clause of the conjunct's translation.",
		NotDecided: "the exactly-one grid encoding, variable numbering, the translation as a whole (equisatisfiability for every tree); nothing is executed.",
		Rules:      []ruleFn{ruleR11_1, ruleR11_2, ruleR11_4, ruleR11_5, ruleR11_6, ruleR11_7, ruleR11_8, ruleR11_9, ruleR11_10, ruleR11_11},
	})
}

const bfPkg = "bf"

// ---------------------------------------------------------------------------------------------------------------
// model of the formula package: roles resolved through types
// ---------------------------------------------------------------------------------------------------------------

type bfModel struct {
	w     *World
	pkg   string
	fns   []*ssa.Function
	inPkg map[*ssa.Function]bool
	iface *types.Named
	it    *types.Interface
	impls []types.Type // concrete types whose method set implements the interface (T or *T), name order
	nnf   *types.Func  // the interface method returning the interface itself
	eval  *types.Func  // the interface method func(map[string]bool) bool
	err   string
	open  map[*ssa.Function]bool
}

func newBFModel(w *World, pkg string) *bfModel {
	m := &bfModel{w: w, pkg: pkg, inPkg: map[*ssa.Function]bool{}, open: map[*ssa.Function]bool{}}
	for _, fn := range w.Fns {
		if w.PkgName(fn) == pkg {
			m.fns = append(m.fns, fn)
			m.inPkg[fn] = true
		}
	}
	m.iface = w.NamedType(pkg, "Formula")
	if m.iface == nil {
		m.err = "type " + pkg + ".Formula not found"
		return m
	}
	m.it, _ = m.iface.Underlying().(*types.Interface)
	if m.it == nil {
		m.err = pkg + ".Formula is not an interface"
		return m
	}
	for i := 0; i < m.it.NumMethods(); i++ {
		f := m.it.Method(i)
		sig := f.Type().(*types.Signature)
		if sig.Params().Len() == 0 && sig.Results().Len() == 1 && types.Identical(sig.Results().At(0).Type(), m.iface) {
			if m.nnf != nil {
				m.err = "two methods of Formula return a Formula; the normal-form method is ambiguous"
				return m
			}
			m.nnf = f
		}
		if sig.Params().Len() == 1 && sig.Results().Len() == 1 {
			if mp, ok := sig.Params().At(0).Type().Underlying().(*types.Map); ok {
				if b, ok := sig.Results().At(0).Type().Underlying().(*types.Basic); ok && b.Kind() == types.Bool {
					if eb, ok := mp.Elem().Underlying().(*types.Basic); ok && eb.Kind() == types.Bool {
						m.eval = f
					}
				}
			}
		}
	}
	if m.nnf == nil {
		m.err = "Formula has no method returning a Formula (normal-form method)"
		return m
	}
	if m.eval == nil {
		m.err = "Formula has no evaluation method func(map[..]bool) bool"
		return m
	}
	for _, p := range w.Pkgs {
		sc := p.Types.Scope()
		for _, name := range sc.Names() {
			tn, ok := sc.Lookup(name).(*types.TypeName)
			if !ok || tn.IsAlias() {
				continue
			}
			named, ok := tn.Type().(*types.Named)
			if !ok || types.IsInterface(named) || named.TypeParams().Len() > 0 {
				continue
			}
			if types.Implements(named, m.it) {
				m.impls = append(m.impls, named)
			} else if pt := types.NewPointer(named); types.Implements(pt, m.it) {
				m.impls = append(m.impls, pt)
			}
		}
	}
	sort.Slice(m.impls, func(i, j int) bool { return typeShort(m.impls[i]) < typeShort(m.impls[j]) })
	// functions whose parameters are not under the package's control
	used := map[*ssa.Function]bool{}
	for _, fn := range m.fns {
		allInstrs(fn, func(ins ssa.Instruction) {
			var callee ssa.Value
			if c, ok := ins.(ssa.CallInstruction); ok && !c.Common().IsInvoke() {
				callee = c.Common().Value
			}
			for _, op := range ins.Operands(nil) {
				if op == nil || *op == nil || *op == callee {
					continue
				}
				if f, ok := (*op).(*ssa.Function); ok {
					used[w.unwrap(f)] = true
				}
			}
		})
	}
	for _, fn := range m.fns {
		// a method can be reached through an interface only if its receiver type has interface-visible methods that
		// matter here: the receiver implements Formula, or the method is exported; an unexported method of a helper
		// type (`(*vars).cnf`) has only the static callers seen in the package, like a plain function
		dynMethod := false
		if rv := fn.Signature.Recv(); rv != nil {
			rt := rv.Type()
			if p, isP := rt.Underlying().(*types.Pointer); isP {
				rt = p.Elem()
			}
			dynMethod = m.isImpl(rt) || m.isImpl(types.NewPointer(rt)) || m.isImpl(rv.Type())
		}
		if fn.Parent() != nil || dynMethod || ast.IsExported(fn.Name()) || used[fn] || len(w.Callers[fn]) == 0 {
			m.open[fn] = true
		}
	}
	return m
}

func (m *bfModel) isFormula(t types.Type) bool {
	if t == nil {
		return false
	}
	n, ok := types.Unalias(t).(*types.Named)
	return ok && n.Obj() == m.iface.Obj()
}

func (m *bfModel) isImpl(t types.Type) bool {
	if t == nil || types.IsInterface(t) {
		return false
	}
	return types.Implements(t, m.it)
}

// isContainer: slice or array (possibly behind one pointer) whose elements are Formulas.
func (m *bfModel) isContainer(t types.Type) bool {
	if t == nil {
		return false
	}
	u := t.Underlying()
	if p, ok := u.(*types.Pointer); ok {
		u = p.Elem().Underlying()
		if _, isArr := u.(*types.Array); !isArr {
			return false
		}
	}
	switch c := u.(type) {
	case *types.Slice:
		return m.isFormula(c.Elem())
	case *types.Array:
		return m.isFormula(c.Elem())
	}
	return false
}

// isConstType: an implementing type without state (struct{}).
func (m *bfModel) isConstType(t types.Type) bool {
	st, ok := t.Underlying().(*types.Struct)
	return ok && st.NumFields() == 0 && m.isImpl(t)
}

func (m *bfModel) implByName(s string) types.Type {
	for _, t := range m.impls {
		if typeShort(t) == s {
			return t
		}
	}
	return nil
}

// method returns the declared method of concrete type t that implements interface method f.
func (m *bfModel) method(t types.Type, f *types.Func) *ssa.Function {
	for _, recv := range []types.Type{t, types.NewPointer(t)} {
		if _, isPtr := t.(*types.Pointer); isPtr && recv != t {
			continue
		}
		sel := m.w.Prog.MethodSets.MethodSet(recv).Lookup(f.Pkg(), f.Name())
		if sel == nil {
			continue
		}
		fn := m.w.Prog.MethodValue(sel)
		if fn == nil {
			continue
		}
		fn = m.w.unwrap(fn)
		if m.w.InModule(fn) {
			return fn
		}
	}
	return nil
}

func (m *bfModel) isNNFInvoke(c *ssa.CallCommon) bool {
	return c.IsInvoke() && c.Method != nil && c.Method.Name() == m.nnf.Name() && m.isFormula(c.Value.Type())
}

// dynTypeOfCtor: the concrete type an exported constructor wraps into the interface at its returns (And -> and).
func (m *bfModel) dynTypeOfCtor(name string) types.Type {
	fn := m.w.Func(m.pkg, name)
	if fn == nil {
		return nil
	}
	var out types.Type
	for _, b := range fn.Blocks {
		ret, ok := b.Instrs[len(b.Instrs)-1].(*ssa.Return)
		if !ok || len(ret.Results) != 1 {
			continue
		}
		mi, ok := ret.Results[0].(*ssa.MakeInterface)
		if !ok {
			return nil
		}
		if out != nil && !types.Identical(out, mi.X.Type()) {
			return nil
		}
		out = mi.X.Type()
	}
	return out
}

// evalConstOf: the boolean a stateless constant type evaluates to (its Eval returns that literal on every path).
func (m *bfModel) evalConstOf(t types.Type) (val bool, ok bool) {
	fn := m.method(t, m.eval)
	if fn == nil {
		return false, false
	}
	seen := false
	for _, b := range fn.Blocks {
		ret, isRet := b.Instrs[len(b.Instrs)-1].(*ssa.Return)
		if !isRet {
			continue
		}
		if len(ret.Results) != 1 {
			return false, false
		}
		k, isK := ret.Results[0].(*ssa.Const)
		if !isK || k.Value == nil || k.Value.Kind() != constant.Bool {
			return false, false
		}
		v := constant.BoolVal(k.Value)
		if seen && v != val {
			return false, false
		}
		val, seen = v, true
	}
	return val, seen
}

// ---------------------------------------------------------------------------------------------------------------
// dynamic-type flow analysis over the package (used by R11.1, R11.2, R11.4)
// ---------------------------------------------------------------------------------------------------------------

// absVal abstracts a formula value: its concrete type and, for container types (and / or / not), the conversion
// site that built it, which identifies what its elements can be. Site == nil: built outside the package's control
// (arbitrary elements).
type absVal struct {
	T    string
	Site ssa.Instruction
}

type avSet map[absVal]bool

func (s avSet) types() []string {
	m := map[string]bool{}
	for a := range s {
		m[a.T] = true
	}
	var out []string
	for t := range m {
		out = append(out, t)
	}
	sort.Strings(out)
	return out
}

type bfFlow struct {
	m       *bfModel
	T       map[ssa.Value]avSet       // interface-typed values
	E       map[ssa.Value]avSet       // containers (slices, arrays, pointers to arrays, cells holding a Formula): elements
	ES      map[ssa.Instruction]avSet // elements per conversion site
	G       map[*ssa.Global]avSet
	ret     map[*ssa.Function][]avSet
	retE    map[*ssa.Function][]avSet
	any     avSet
	changed bool
	rounds  int
	exclMem map[ssa.Value]map[*ssa.BasicBlock]map[string]bool
}

func newBFFlow(m *bfModel) *bfFlow {
	f := &bfFlow{m: m, T: map[ssa.Value]avSet{}, E: map[ssa.Value]avSet{}, ES: map[ssa.Instruction]avSet{}, G: map[*ssa.Global]avSet{},
		ret: map[*ssa.Function][]avSet{}, retE: map[*ssa.Function][]avSet{}, any: avSet{}, exclMem: map[ssa.Value]map[*ssa.BasicBlock]map[string]bool{}}
	for _, t := range m.impls {
		f.any[absVal{T: typeShort(t)}] = true
	}
	for _, fn := range m.fns {
		n := fn.Signature.Results().Len()
		f.ret[fn] = make([]avSet, n)
		f.retE[fn] = make([]avSet, n)
		for i := 0; i < n; i++ {
			f.ret[fn][i], f.retE[fn][i] = avSet{}, avSet{}
		}
		if m.open[fn] {
			for _, p := range fn.Params {
				f.seedAny(p)
			}
		}
		for _, fv := range fn.FreeVars {
			f.seedAny(fv)
		}
	}
	f.changed = true
	for f.changed && f.rounds < 200 {
		f.changed = false
		f.rounds++
		for _, fn := range m.fns {
			f.step(fn)
		}
		// package initialiser: stores to package-level variables (True, False)
		if sp := m.w.SSA[m.pkg]; sp != nil {
			if in := sp.Func("init"); in != nil {
				f.step(in)
			}
		}
	}
	return f
}

func (f *bfFlow) seedAny(v ssa.Value) {
	if f.m.isFormula(v.Type()) {
		f.incl(f.tOf(v), f.any)
	} else if f.m.isContainer(v.Type()) || f.isCellPtr(v.Type()) {
		f.incl(f.eOf(v), f.any)
	}
}

func (f *bfFlow) isCellPtr(t types.Type) bool {
	p, ok := t.Underlying().(*types.Pointer)
	return ok && f.m.isFormula(p.Elem())
}

func (f *bfFlow) tOf(v ssa.Value) avSet {
	s := f.T[v]
	if s == nil {
		s = avSet{}
		f.T[v] = s
	}
	return s
}

func (f *bfFlow) eOf(v ssa.Value) avSet {
	s := f.E[v]
	if s == nil {
		s = avSet{}
		f.E[v] = s
	}
	return s
}

func (f *bfFlow) esOf(i ssa.Instruction) avSet {
	s := f.ES[i]
	if s == nil {
		s = avSet{}
		f.ES[i] = s
	}
	return s
}

func (f *bfFlow) gOf(g *ssa.Global) avSet {
	s := f.G[g]
	if s == nil {
		s = avSet{}
		f.G[g] = s
	}
	return s
}

func (f *bfFlow) incl(dst, src avSet) {
	for a := range src {
		if !dst[a] {
			dst[a] = true
			f.changed = true
		}
	}
}

func (f *bfFlow) alias(a, b ssa.Value) {
	f.incl(f.eOf(a), f.eOf(b))
	f.incl(f.eOf(b), f.eOf(a))
}

// excluded: the concrete types v cannot have in block b, because b is dominated by the failing edge of a
// comma-ok type assertion on v (the arms of a type switch that were tried before).
func (f *bfFlow) excluded(v ssa.Value, b *ssa.BasicBlock) map[string]bool {
	if mm := f.exclMem[v]; mm != nil {
		if ex, ok := mm[b]; ok {
			return ex
		}
	} else {
		f.exclMem[v] = map[*ssa.BasicBlock]map[string]bool{}
	}
	var out map[string]bool
	for _, ec := range dominatingConds(b) {
		if ec.True {
			continue
		}
		ex, ok := ec.Cond.(*ssa.Extract)
		if !ok || ex.Index != 1 {
			continue
		}
		ta, ok := ex.Tuple.(*ssa.TypeAssert)
		if !ok || !ta.CommaOk || ta.X != v || types.IsInterface(ta.AssertedType) {
			continue
		}
		if out == nil {
			out = map[string]bool{}
		}
		out[typeShort(ta.AssertedType)] = true
	}
	f.exclMem[v][b] = out
	return out
}

func (f *bfFlow) narrowed(v ssa.Value, b *ssa.BasicBlock) avSet {
	s := f.tOf(v)
	ex := f.excluded(v, b)
	if len(ex) == 0 {
		return s
	}
	out := avSet{}
	for a := range s {
		if !ex[a.T] {
			out[a] = true
		}
	}
	return out
}

// cell: the element set a pointer to a Formula designates (nil: not modelled; loads give anything).
func (f *bfFlow) cell(addr ssa.Value) avSet {
	switch a := addr.(type) {
	case *ssa.IndexAddr:
		return f.eOf(a.X)
	case *ssa.Alloc:
		return f.eOf(a)
	case *ssa.Global:
		return f.gOf(a)
	}
	return nil
}

// calleesOf resolves the package functions a call may run; known is false when something outside the model may run.
func (f *bfFlow) calleesOf(c *ssa.CallCommon) (out []*ssa.Function, known bool) {
	if c.IsInvoke() {
		if !f.m.isNNFInvoke(c) {
			return nil, false
		}
		for _, t := range f.m.impls {
			fn := f.m.method(t, f.m.nnf)
			if fn == nil {
				return nil, false
			}
			out = append(out, fn)
		}
		return out, true
	}
	sc := c.StaticCallee()
	if sc == nil {
		return nil, false
	}
	sc = f.m.w.unwrap(sc)
	if !f.m.inPkg[sc] {
		return nil, false
	}
	return []*ssa.Function{sc}, true
}

func (f *bfFlow) tracked(t types.Type) bool {
	return f.m.isFormula(t) || f.m.isContainer(t)
}

func (f *bfFlow) setAnyValue(v ssa.Value) {
	if f.m.isFormula(v.Type()) {
		f.incl(f.tOf(v), f.any)
	} else if f.m.isContainer(v.Type()) {
		f.incl(f.eOf(v), f.any)
	}
}

func (f *bfFlow) assertInto(dst ssa.Value, ta *ssa.TypeAssert) {
	at := ta.AssertedType
	if types.IsInterface(at) {
		if f.m.isFormula(at) {
			f.incl(f.tOf(dst), f.tOf(ta.X))
		}
		return
	}
	if !f.m.isContainer(at) {
		return
	}
	name := typeShort(at)
	for a := range f.tOf(ta.X) {
		if a.T != name {
			continue
		}
		if a.Site == nil {
			f.incl(f.eOf(dst), f.any)
		} else {
			f.incl(f.eOf(dst), f.esOf(a.Site))
		}
	}
}

func (f *bfFlow) step(fn *ssa.Function) {
	m := f.m
	for _, b := range fn.Blocks {
		for _, ins := range b.Instrs {
			switch x := ins.(type) {
			case *ssa.MakeInterface:
				if m.isImpl(x.X.Type()) {
					av := absVal{T: typeShort(x.X.Type())}
					if m.isContainer(x.X.Type()) {
						av.Site = x
						f.incl(f.esOf(x), f.eOf(x.X))
					}
					s := f.tOf(x)
					if !s[av] {
						s[av] = true
						f.changed = true
					}
				}
			case *ssa.ChangeInterface:
				if m.isFormula(x.Type()) {
					if m.isFormula(x.X.Type()) {
						f.incl(f.tOf(x), f.tOf(x.X))
					} else {
						f.setAnyValue(x)
					}
				}
			case *ssa.ChangeType:
				if m.isContainer(x.Type()) {
					f.alias(x, x.X)
				} else if m.isFormula(x.Type()) {
					f.incl(f.tOf(x), f.tOf(x.X))
				}
			case *ssa.Convert:
				if m.isContainer(x.Type()) {
					f.alias(x, x.X)
				}
			case *ssa.Slice:
				if m.isContainer(x.Type()) {
					f.alias(x, x.X)
				}
			case *ssa.Phi:
				if m.isContainer(x.Type()) {
					for _, e := range x.Edges {
						if _, isK := e.(*ssa.Const); !isK {
							f.alias(x, e)
						}
					}
				} else if m.isFormula(x.Type()) {
					for i, e := range x.Edges {
						f.incl(f.tOf(x), f.narrowed(e, b.Preds[i]))
					}
				}
			case *ssa.UnOp:
				if x.Op != token.MUL {
					break
				}
				if m.isFormula(x.Type()) {
					if c := f.cell(x.X); c != nil {
						f.incl(f.tOf(x), c)
					} else {
						f.setAnyValue(x)
					}
				} else if m.isContainer(x.Type()) {
					switch x.X.(type) {
					case *ssa.Alloc:
						f.incl(f.eOf(x), f.eOf(x.X))
					default:
						f.setAnyValue(x)
					}
				}
			case *ssa.Store:
				if m.isFormula(x.Val.Type()) {
					if c := f.cell(x.Addr); c != nil {
						f.incl(c, f.narrowed(x.Val, b))
					}
				} else if m.isContainer(x.Val.Type()) {
					if _, ok := x.Addr.(*ssa.Alloc); ok {
						f.incl(f.eOf(x.Addr), f.eOf(x.Val))
					}
				}
			case *ssa.Index:
				if m.isFormula(x.Type()) {
					f.incl(f.tOf(x), f.eOf(x.X))
				}
			case *ssa.TypeAssert:
				if !x.CommaOk {
					f.assertInto(x, x)
				}
			case *ssa.Extract:
				switch tup := x.Tuple.(type) {
				case *ssa.TypeAssert:
					if x.Index == 0 {
						f.assertInto(x, tup)
					}
				case *ssa.Call:
					if !f.tracked(x.Type()) {
						break
					}
					callees, known := f.calleesOf(tup.Common())
					if !known {
						f.setAnyValue(x)
						break
					}
					for _, c := range callees {
						if x.Index < len(f.ret[c]) {
							f.incl(f.tOf(x), f.ret[c][x.Index])
							f.incl(f.eOf(x), f.retE[c][x.Index])
						}
					}
				default:
					if f.tracked(x.Type()) {
						f.setAnyValue(x)
					}
				}
			case *ssa.Call:
				f.stepCall(x, b)
			case *ssa.Go:
				f.bindArgs(x.Common(), b)
			case *ssa.Defer:
				f.bindArgs(x.Common(), b)
			case *ssa.Return:
				for i, rv := range x.Results {
					if i >= len(f.ret[fn]) {
						break
					}
					if m.isFormula(rv.Type()) {
						f.incl(f.ret[fn][i], f.narrowed(rv, b))
					} else if m.isContainer(rv.Type()) {
						f.incl(f.retE[fn][i], f.eOf(rv))
					}
				}
			case *ssa.Alloc, *ssa.MakeSlice, *ssa.IndexAddr, *ssa.FieldAddr:
				// storage: content arrives through stores
			default:
				if v, ok := ins.(ssa.Value); ok && f.tracked(v.Type()) {
					f.setAnyValue(v)
				}
			}
		}
	}
}

func (f *bfFlow) bindArgs(c *ssa.CallCommon, b *ssa.BasicBlock) (callees []*ssa.Function, known bool) {
	callees, known = f.calleesOf(c)
	if !known {
		return
	}
	for _, callee := range callees {
		if f.m.open[callee] {
			continue
		}
		args := c.Args
		if len(args) != len(callee.Params) {
			for _, p := range callee.Params {
				f.seedAny(p) // cannot match arguments to parameters: assume anything
			}
			continue
		}
		for i, a := range args {
			p := callee.Params[i]
			if f.m.isFormula(p.Type()) {
				f.incl(f.tOf(p), f.narrowed(a, b))
			} else if f.m.isContainer(p.Type()) {
				f.incl(f.eOf(p), f.eOf(a))
			}
		}
	}
	return
}

func (f *bfFlow) stepCall(x *ssa.Call, b *ssa.BasicBlock) {
	cc := x.Common()
	if bi, ok := cc.Value.(*ssa.Builtin); ok {
		switch bi.Name() {
		case "append":
			if f.m.isContainer(x.Type()) && len(cc.Args) == 2 {
				if _, isK := cc.Args[0].(*ssa.Const); !isK {
					f.alias(x, cc.Args[0])
				}
				f.incl(f.eOf(x), f.eOf(cc.Args[1]))
			}
		case "copy":
			if len(cc.Args) == 2 && f.m.isContainer(cc.Args[0].Type()) {
				f.incl(f.eOf(cc.Args[0]), f.eOf(cc.Args[1]))
			}
		}
		return
	}
	callees, known := f.bindArgs(cc, b)
	if _, isTuple := x.Type().(*types.Tuple); isTuple {
		return // handled at the Extract
	}
	if !f.tracked(x.Type()) {
		return
	}
	if !known {
		f.setAnyValue(x)
		return
	}
	for _, c := range callees {
		if len(f.ret[c]) == 1 {
			f.incl(f.tOf(x), f.ret[c][0])
			f.incl(f.eOf(x), f.retE[c][0])
		}
	}
}

// nnfRange: what the normal-form methods can return.
func (f *bfFlow) nnfRange() avSet {
	out := avSet{}
	for _, t := range f.m.impls {
		if fn := f.m.method(t, f.m.nnf); fn != nil && len(f.ret[fn]) == 1 {
			for a := range f.ret[fn][0] {
				out[a] = true
			}
		}
	}
	return out
}

func (f *bfFlow) describe(s avSet) string {
	var parts []string
	for a := range s {
		if a.Site == nil {
			parts = append(parts, a.T)
		} else {
			parts = append(parts, a.T+" built at "+f.m.w.InstrPos(a.Site))
		}
	}
	sort.Strings(parts)
	return strings.Join(parts, ", ")
}

// cached per World: the three properties and several rules share the model
var bfCache = map[*World]*struct {
	m *bfModel
	f *bfFlow
}{}

func bfOf(w *World) (*bfModel, *bfFlow) {
	if c := bfCache[w]; c != nil {
		return c.m, c.f
	}
	m := newBFModel(w, bfPkg)
	var f *bfFlow
	if m.err == "" {
		f = newBFFlow(m)
	}
	bfCache[w] = &struct {
		m *bfModel
		f *bfFlow
	}{m, f}
	return m, f
}

// ---------------------------------------------------------------------------------------------------------------
// R11.1 exhaustive dispatch
// ---------------------------------------------------------------------------------------------------------------

// dispatchArm is a place where a formula of an unexpected dynamic type makes the package panic: the final else of
// a chain of comma-ok type assertions (a type switch) that ends in panic, or a plain type assertion.
type dispatchArm struct {
	fn    *ssa.Function
	ins   ssa.Instruction
	v     ssa.Value
	label string
	reach avSet
}

func panicMessage(p *ssa.Panic) string {
	if mi, ok := p.X.(*ssa.MakeInterface); ok {
		if s, ok := constString(mi.X); ok {
			return s
		}
	}
	return ""
}

func (f *bfFlow) dispatchArms() []dispatchArm {
	var arms []dispatchArm
	for _, fn := range f.m.fns {
		nPanic, nAssert := 0, 0
		for _, b := range fn.Blocks {
			for _, ins := range b.Instrs {
				switch x := ins.(type) {
				case *ssa.Panic:
					var v ssa.Value
					for _, ec := range dominatingConds(b) {
						if ec.True {
							continue
						}
						if ex, ok := ec.Cond.(*ssa.Extract); ok && ex.Index == 1 {
							if ta, ok := ex.Tuple.(*ssa.TypeAssert); ok && ta.CommaOk && f.m.isFormula(ta.X.Type()) {
								v = ta.X
								break
							}
						}
					}
					if v == nil {
						continue
					}
					nPanic++
					label := panicMessage(x)
					if label == "" {
						label = fmt.Sprintf("#%d", nPanic)
					}
					arms = append(arms, dispatchArm{fn: fn, ins: x, v: v, label: "panic arm \"" + label + "\"", reach: f.narrowed(v, b)})
				case *ssa.TypeAssert:
					if x.CommaOk || !f.m.isFormula(x.X.Type()) || types.IsInterface(x.AssertedType) {
						continue
					}
					nAssert++
					reach := avSet{}
					for a := range f.narrowed(x.X, b) {
						if a.T != typeShort(x.AssertedType) {
							reach[a] = true
						}
					}
					arms = append(arms, dispatchArm{fn: fn, ins: x, v: x.X, label: fmt.Sprintf("assertion .(%s) #%d", typeShort(x.AssertedType), nAssert), reach: reach})
				}
			}
		}
	}
	return arms
}

func ruleR11_1(w *World, r *Report) {
	const id = "R11.1"
	r.Rule(id, "every type implementing bf.Formula is handled wherever formulas are dispatched on: no dynamic type that can flow into a type switch ending in panic (or into a plain type assertion) is missing from its cases; the range of the normal-form methods is computed by a type-flow analysis", 10)
	m, f := bfOf(w)
	if m.err != "" {
		r.Unk(id, "bf.Formula", "-", m.err)
		return
	}
	var names []string
	for _, t := range m.impls {
		names = append(names, typeShort(t))
	}
	if len(m.impls) == 0 {
		r.Unk(id, "implementations of bf.Formula", "-", "no implementing type found")
		return
	}
	r.OK(id, "implementations of bf.Formula", w.Pos(m.iface.Obj().Pos()), fmt.Sprintf("%d types: %s; normal-form method %q; flow fixpoint after %d rounds; range of the normal form: %s",
		len(names), strings.Join(names, ", "), m.nnf.Name(), f.rounds, strings.Join(f.nnfRange().types(), ", ")))
	if f.rounds >= 200 {
		r.Unk(id, "type-flow fixpoint", "-", "no fixpoint after 200 rounds")
		return
	}
	arms := f.dispatchArms()
	perType := map[string][]string{}
	nSwitch := 0
	for _, a := range arms {
		key := w.FuncName(a.fn) + " " + a.label
		if _, isPanic := a.ins.(*ssa.Panic); isPanic {
			nSwitch++
		}
		if len(a.reach) == 0 {
			r.OK(id, key, w.InstrPos(a.ins), "no dynamic type that can flow here is left unhandled")
			continue
		}
		r.Bad(id, key, w.InstrPos(a.ins), "formula values of these dynamic types reach this arm and make it panic: "+f.describe(a.reach))
		for _, t := range a.reach.types() {
			perType[t] = append(perType[t], key)
		}
	}
	if nSwitch == 0 {
		r.Unk(id, "dispatch sites", "-", "no type switch over bf.Formula ending in panic was found: the dispatch code changed shape")
	}
	// the negation's normal form must dispatch on its operand (an arbitrary formula)
	if notT := m.dynTypeOfCtor("Not"); notT == nil {
		r.Unk(id, "bf.Not", "-", "cannot resolve the dynamic type bf.Not returns")
	} else if nf := m.method(notT, m.nnf); nf == nil {
		r.Unk(id, "bf.Not", "-", "negation type has no normal-form method")
	} else {
		found := false
		for _, a := range arms {
			if a.fn == nf {
				if _, isPanic := a.ins.(*ssa.Panic); isPanic {
					found = true
				}
			}
		}
		if !found {
			r.Unk(id, w.FuncName(nf)+" dispatch", w.Pos(nf.Pos()), "the negation's normal form has no type switch with a panicking default any more; its exhaustiveness cannot be read off")
		}
	}
	for _, t := range m.impls {
		n := typeShort(t)
		pos := "-"
		if nt, ok := t.(*types.Named); ok {
			pos = w.Pos(nt.Obj().Pos())
		} else if pt, ok := t.(*types.Pointer); ok {
			if nt, ok := pt.Elem().(*types.Named); ok {
				pos = w.Pos(nt.Obj().Pos())
			}
		}
		if len(perType[n]) > 0 {
			r.Bad(id, "type "+n, pos, "implements bf.Formula but is not handled at: "+strings.Join(perType[n], "; "))
		} else {
			r.OK(id, "type "+n, pos, fmt.Sprintf("handled or provably absent at all %d dispatch sites", len(arms)))
		}
	}
}

// ---------------------------------------------------------------------------------------------------------------
// zero-operand path evaluation (used by R11.2): walk the CFG from the entry taking the exit edge of every loop over
// the receiver, evaluating branch conditions over constants; phis are resolved by the edge actually taken.
// ---------------------------------------------------------------------------------------------------------------

type zeroPath struct {
	fn   *ssa.Function
	from map[*ssa.BasicBlock]*ssa.BasicBlock
	ret  *ssa.Return
	why  string
}

func (z *zeroPath) resolve(v ssa.Value) ssa.Value {
	for i := 0; i < 50; i++ {
		phi, ok := v.(*ssa.Phi)
		if !ok {
			return v
		}
		p, seen := z.from[phi.Block()]
		if !seen {
			return v
		}
		idx := -1
		for j, q := range phi.Block().Preds {
			if q == p {
				idx = j
			}
		}
		if idx < 0 {
			return v
		}
		v = phi.Edges[idx]
	}
	return v
}

// isRecvLen: len(x) where x is the receiver (first parameter).
func (z *zeroPath) isRecvLen(v ssa.Value) bool {
	c, ok := v.(*ssa.Call)
	if !ok {
		return false
	}
	b, ok := c.Call.Value.(*ssa.Builtin)
	if !ok || b.Name() != "len" || len(c.Call.Args) != 1 {
		return false
	}
	return len(z.fn.Params) > 0 && c.Call.Args[0] == z.fn.Params[0]
}

func (z *zeroPath) eval(v ssa.Value) constant.Value {
	v = z.resolve(v)
	switch x := v.(type) {
	case *ssa.Const:
		if x.Value != nil {
			return x.Value
		}
		return nil
	case *ssa.Call:
		if b, ok := x.Call.Value.(*ssa.Builtin); ok && b.Name() == "len" && len(x.Call.Args) == 1 {
			if z.isRecvLen(x) {
				return constant.MakeInt64(0)
			}
			a := z.resolve(x.Call.Args[0])
			if k, ok := a.(*ssa.Const); ok && k.IsNil() {
				return constant.MakeInt64(0)
			}
		}
	case *ssa.UnOp:
		if x.Op == token.NOT {
			if c := z.eval(x.X); c != nil && c.Kind() == constant.Bool {
				return constant.MakeBool(!constant.BoolVal(c))
			}
		}
	case *ssa.BinOp:
		a, b := z.eval(x.X), z.eval(x.Y)
		if a == nil || b == nil {
			return nil
		}
		switch x.Op {
		case token.EQL, token.NEQ, token.LSS, token.LEQ, token.GTR, token.GEQ:
			if a.Kind() == b.Kind() && (a.Kind() == constant.Int || (a.Kind() == constant.Bool && (x.Op == token.EQL || x.Op == token.NEQ))) {
				return constant.MakeBool(constant.Compare(a, x.Op, b))
			}
		case token.ADD, token.SUB:
			if a.Kind() == constant.Int && b.Kind() == constant.Int {
				return constant.BinaryOp(a, x.Op, b)
			}
		}
	}
	return nil
}

func zeroOperandPath(fn *ssa.Function) *zeroPath {
	z := &zeroPath{fn: fn, from: map[*ssa.BasicBlock]*ssa.BasicBlock{}}
	if len(fn.Blocks) == 0 {
		z.why = "no body"
		return z
	}
	headers := map[*ssa.BasicBlock]bool{}
	for _, h := range loopHeaders(fn) {
		headers[h] = true
	}
	cur := fn.Blocks[0]
	visited := map[*ssa.BasicBlock]bool{}
	for steps := 0; steps < 200; steps++ {
		if visited[cur] {
			z.why = "path returns to " + blockName(cur)
			return z
		}
		visited[cur] = true
		var next *ssa.BasicBlock
		switch last := cur.Instrs[len(cur.Instrs)-1].(type) {
		case *ssa.Return:
			z.ret = last
			return z
		case *ssa.Jump:
			next = cur.Succs[0]
		case *ssa.If:
			if c := z.eval(last.Cond); c != nil && c.Kind() == constant.Bool {
				if constant.BoolVal(c) {
					next = cur.Succs[0]
				} else {
					next = cur.Succs[1]
				}
			} else if headers[cur] {
				body := loopBlocks(fn, cur)
				in0, in1 := body[cur.Succs[0]], body[cur.Succs[1]]
				if in0 == in1 {
					z.why = "cannot tell the exit edge of the loop at " + blockName(cur)
					return z
				}
				// only loops bounded by the receiver's length have a zero-trip reading
				bounded := false
				if bo, ok := last.Cond.(*ssa.BinOp); ok && (z.isRecvLen(z.resolve(bo.X)) || z.isRecvLen(z.resolve(bo.Y))) {
					bounded = true
				}
				if !bounded {
					z.why = "loop at " + blockName(cur) + " is not bounded by the number of operands"
					return z
				}
				if in0 {
					next = cur.Succs[1]
				} else {
					next = cur.Succs[0]
				}
			} else {
				z.why = "branch at " + blockName(cur) + " does not evaluate on the zero-operand path"
				return z
			}
		default:
			z.why = "path ends in " + blockName(cur) + " without returning"
			return z
		}
		z.from[next] = cur
		cur = next
	}
	z.why = "path too long"
	return z
}

// ---------------------------------------------------------------------------------------------------------------
// R11.2 identity elements
// ---------------------------------------------------------------------------------------------------------------

// naryConnectives: implementing types that are slices of formulas.
func (m *bfModel) naryConnectives() []types.Type {
	var out []types.Type
	for _, t := range m.impls {
		if sl, ok := t.Underlying().(*types.Slice); ok && m.isFormula(sl.Elem()) {
			out = append(out, t)
		}
	}
	return out
}

type foldInfo struct {
	ignored   []string          // constant types whose case does nothing
	absorbing map[string]string // constant type -> description of what its case returns ("" when it returns itself)
	other     []string
	pos       token.Pos
}

// foldCases classifies, in the normal-form method of an n-ary connective, the cases of the dispatch over the
// operand's normal form that concern constant types.
func (f *bfFlow) foldCases(fn *ssa.Function) *foldInfo {
	fi := &foldInfo{absorbing: map[string]string{}}
	headers := loopHeaders(fn)
	for _, b := range fn.Blocks {
		for _, ins := range b.Instrs {
			ta, ok := ins.(*ssa.TypeAssert)
			if !ok || !ta.CommaOk || !f.m.isConstType(ta.AssertedType) {
				continue
			}
			call, ok := ta.X.(*ssa.Call)
			if !ok || !f.m.isNNFInvoke(call.Common()) {
				continue
			}
			// the branch on this assertion
			var iff *ssa.If
			for _, ref := range *ta.Referrers() {
				if ex, ok := ref.(*ssa.Extract); ok && ex.Index == 1 {
					for _, r2 := range *ex.Referrers() {
						if i2, ok := r2.(*ssa.If); ok {
							iff = i2
						}
					}
				}
			}
			name := typeShort(ta.AssertedType)
			if iff == nil {
				fi.other = append(fi.other, name+": result of the assertion does not decide a branch")
				continue
			}
			if !fi.pos.IsValid() {
				fi.pos = ta.Pos()
			}
			// innermost loop containing the assertion
			var header *ssa.BasicBlock
			var body map[*ssa.BasicBlock]bool
			for _, h := range headers {
				lb := loopBlocks(fn, h)
				if lb[b] && (body == nil || len(lb) < len(body)) {
					header, body = h, lb
				}
			}
			from, cur := iff.Block(), iff.Block().Succs[0]
			kind := ""
			for steps := 0; steps < 20 && kind == ""; steps++ {
				if header != nil && cur == header {
					// nothing happened: the accumulator phis must keep their value along this edge
					kind = "ignored"
					for _, pi := range cur.Instrs {
						phi, ok := pi.(*ssa.Phi)
						if !ok {
							break
						}
						if !f.m.isContainer(phi.Type()) {
							continue
						}
						for j, p := range cur.Preds {
							if p == from && phi.Edges[j] != ssa.Value(phi) {
								kind = "the accumulator changes although the case is empty"
							}
						}
					}
					break
				}
				effect := false
				for _, i2 := range cur.Instrs {
					switch y := i2.(type) {
					case *ssa.Jump, *ssa.DebugRef:
					case *ssa.Return:
						if !effect && len(y.Results) == 1 {
							ts := f.narrowed(y.Results[0], cur).types()
							if len(ts) == 1 && ts[0] == name {
								kind = "absorbing"
								fi.absorbing[name] = ""
							} else {
								kind = "absorbing"
								fi.absorbing[name] = strings.Join(ts, "|")
							}
						} else {
							kind = "returns after other effects"
						}
					case *ssa.UnOp:
						// loads are not effects
					default:
						effect = true
					}
				}
				if kind != "" {
					break
				}
				if effect || len(cur.Succs) != 1 {
					kind = "does something else than ignoring the operand or returning"
					break
				}
				from, cur = cur, cur.Succs[0]
			}
			switch kind {
			case "ignored":
				fi.ignored = append(fi.ignored, name)
			case "absorbing":
			case "":
				fi.other = append(fi.other, name+": case not understood")
			default:
				fi.other = append(fi.other, name+": "+kind)
			}
		}
	}
	sort.Strings(fi.ignored)
	return fi
}

func ruleR11_2(w *World, r *Report) {
	const id = "R11.2"
	r.Rule(id, "per n-ary connective: the constant ignored while folding is the identity, the constant returned from its own case is absorbing, the value returned when no operand remains is the identity, and it is what Eval yields for zero operands", 6)
	m, f := bfOf(w)
	if m.err != "" {
		r.Unk(id, "bf.Formula", "-", m.err)
		return
	}
	conns := m.naryConnectives()
	if len(conns) == 0 {
		r.Unk(id, "n-ary connectives", "-", "no implementing type is a slice of formulas")
		return
	}
	// constants and their truth values
	constVal := map[string]bool{}
	for _, t := range m.impls {
		if m.isConstType(t) {
			if v, ok := m.evalConstOf(t); ok {
				constVal[typeShort(t)] = v
			}
		}
	}
	for _, c := range conns {
		cname := typeShort(c)
		nf, ev := m.method(c, m.nnf), m.method(c, m.eval)
		if nf == nil || ev == nil {
			r.Unk(id, cname+" methods", "-", "normal-form or evaluation method not found")
			continue
		}
		// (1) the folding switch
		fi := f.foldCases(nf)
		kFold := w.FuncName(nf) + " folding"
		identity := ""
		switch {
		case len(fi.other) > 0:
			r.Unk(id, kFold, w.Pos(fi.pos), "cases over constants not understood: "+strings.Join(fi.other, "; "))
		case len(fi.ignored) != 1 || len(fi.absorbing) != 1:
			r.Unk(id, kFold, w.Pos(nf.Pos()), fmt.Sprintf("expected one ignored and one absorbing constant in the dispatch over the operands' normal forms, found ignored=%v absorbing=%v", fi.ignored, fi.absorbing))
		default:
			identity = fi.ignored[0]
			var absName, absRet string
			for k, v := range fi.absorbing {
				absName, absRet = k, v
			}
			vi, okI := constVal[identity]
			va, okA := constVal[absName]
			switch {
			case absRet != "":
				r.Bad(id, kFold, w.Pos(fi.pos), fmt.Sprintf("the case of the absorbing constant %s returns %s instead of that constant", absName, absRet))
			case !okI || !okA:
				r.Unk(id, kFold, w.Pos(fi.pos), "truth value of the constants not resolved from their Eval")
			case vi == va:
				r.Bad(id, kFold, w.Pos(fi.pos), fmt.Sprintf("ignored constant %s and absorbing constant %s evaluate to the same truth value", identity, absName))
			default:
				r.OK(id, kFold, w.Pos(fi.pos), fmt.Sprintf("identity (ignored) = %s [%v], absorbing (returned) = %s [%v]", identity, vi, absName, va))
			}
		}
		// (2) nothing remains
		kEmpty := w.FuncName(nf) + " no operand left"
		zp := zeroOperandPath(nf)
		emptyT := ""
		if zp.ret == nil || len(zp.ret.Results) != 1 {
			r.Unk(id, kEmpty, w.Pos(nf.Pos()), "zero-operand path not resolved: "+zp.why)
		} else {
			rv := zp.resolve(zp.ret.Results[0])
			ts := f.narrowed(rv, zp.ret.Block()).types()
			pos := w.InstrPos(zp.ret)
			switch {
			case len(ts) == 1 && m.isConstType(m.implByName(ts[0])):
				emptyT = ts[0]
				if identity == "" {
					r.Unk(id, kEmpty, pos, "returns "+emptyT+" but the identity could not be read off the folding switch")
				} else {
					r.Check(emptyT == identity, id, kEmpty, pos, "returns the identity "+identity,
						fmt.Sprintf("returns %s when no operand remains, but the constant this connective ignores while folding (its identity) is %s: the empty %s gets the wrong truth value", emptyT, identity, cname))
				}
			default:
				r.Unk(id, kEmpty, pos, fmt.Sprintf("value returned on the zero-operand path is not a single constant (dynamic types %v)", ts))
			}
		}
		// (3) Eval on zero operands
		kEval := w.FuncName(ev) + " zero operands"
		ze := zeroOperandPath(ev)
		if ze.ret == nil || len(ze.ret.Results) != 1 {
			r.Unk(id, kEval, w.Pos(ev.Pos()), "zero-operand path not resolved: "+ze.why)
			continue
		}
		cv := ze.eval(ze.ret.Results[0])
		if cv == nil || cv.Kind() != constant.Bool {
			r.Unk(id, kEval, w.InstrPos(ze.ret), "value returned on the zero-operand path is not a boolean literal")
			continue
		}
		bv := constant.BoolVal(cv)
		switch {
		case identity == "":
			r.Unk(id, kEval, w.InstrPos(ze.ret), fmt.Sprintf("evaluates to %v but the identity could not be read off the folding switch", bv))
		default:
			iv, ok := constVal[identity]
			if !ok {
				r.Unk(id, kEval, w.InstrPos(ze.ret), "truth value of "+identity+" not resolved")
			} else {
				r.Check(iv == bv, id, kEval, w.InstrPos(ze.ret), fmt.Sprintf("zero operands evaluate to %v = value of the identity %s", bv, identity),
					fmt.Sprintf("zero operands evaluate to %v but the identity %s evaluates to %v", bv, identity, iv))
			}
		}
	}
}

// ---------------------------------------------------------------------------------------------------------------
// R11.5 truth tables of the derived connectives (AST of the single return expression, evaluated over 4 valuations)
// ---------------------------------------------------------------------------------------------------------------

type treeEval struct {
	w          *World
	m          *bfModel
	f          *bfFlow
	info       *types.Info
	andT, orT  types.Type
	notT       types.Type
	constVal   map[string]bool
	derivDepth int
}

type treeEnv struct {
	params map[types.Object]bool
	locals map[types.Object]ast.Expr
}

func (te *treeEval) roleOf(t types.Type) string {
	switch {
	case t == nil:
		return ""
	case te.andT != nil && types.Identical(t, te.andT):
		return "and"
	case te.orT != nil && types.Identical(t, te.orT):
		return "or"
	case te.notT != nil && types.Identical(t, te.notT):
		return "not"
	}
	return ""
}

func (te *treeEval) combine(role string, vals []bool, at ast.Node) (bool, error) {
	switch role {
	case "and":
		for _, v := range vals {
			if !v {
				return false, nil
			}
		}
		return true, nil
	case "or":
		for _, v := range vals {
			if v {
				return true, nil
			}
		}
		return false, nil
	case "not":
		if len(vals) != 1 {
			return false, fmt.Errorf("negation with %d operands at %s", len(vals), te.w.Pos(at.Pos()))
		}
		return !vals[0], nil
	}
	return false, fmt.Errorf("unknown connective at %s", te.w.Pos(at.Pos()))
}

func (te *treeEval) evalAll(es []ast.Expr, env *treeEnv) ([]bool, error) {
	var out []bool
	for _, e := range es {
		if kv, ok := e.(*ast.KeyValueExpr); ok {
			e = kv.Value
		}
		v, err := te.eval(e, env)
		if err != nil {
			return nil, err
		}
		out = append(out, v)
	}
	return out, nil
}

func (te *treeEval) eval(e ast.Expr, env *treeEnv) (bool, error) {
	switch x := e.(type) {
	case *ast.ParenExpr:
		return te.eval(x.X, env)
	case *ast.Ident:
		obj := te.info.Uses[x]
		if obj == nil {
			obj = te.info.Defs[x]
		}
		if v, ok := env.params[obj]; ok {
			return v, nil
		}
		if d, ok := env.locals[obj]; ok {
			if d == nil {
				return false, fmt.Errorf("local %s is assigned more than once", x.Name)
			}
			return te.eval(d, env)
		}
		// package-level constant formulas (True / False): dynamic type from the flow analysis
		if vr, ok := obj.(*types.Var); ok && vr.Pkg() != nil && vr.Parent() == vr.Pkg().Scope() && te.w.SSA[te.m.pkg] != nil {
			if g, ok := te.w.SSA[te.m.pkg].Members[vr.Name()].(*ssa.Global); ok {
				ts := te.f.gOf(g).types()
				if len(ts) == 1 {
					if v, ok := te.constVal[ts[0]]; ok {
						return v, nil
					}
				}
			}
		}
		return false, fmt.Errorf("identifier %s at %s is neither a parameter, a single-assignment local nor a constant formula", x.Name, te.w.Pos(x.Pos()))
	case *ast.CompositeLit:
		role := te.roleOf(te.info.TypeOf(x))
		if role == "" {
			return false, fmt.Errorf("composite literal of type %v at %s is not a connective", te.info.TypeOf(x), te.w.Pos(x.Pos()))
		}
		vals, err := te.evalAll(x.Elts, env)
		if err != nil {
			return false, err
		}
		return te.combine(role, vals, x)
	case *ast.CallExpr:
		if tv, ok := te.info.Types[x.Fun]; ok && tv.IsType() {
			// conversion: Formula(e), and([]Formula{...})
			if len(x.Args) != 1 {
				return false, fmt.Errorf("conversion with %d arguments at %s", len(x.Args), te.w.Pos(x.Pos()))
			}
			if te.m.isFormula(tv.Type) {
				return te.eval(x.Args[0], env)
			}
			role := te.roleOf(tv.Type)
			arg := ast.Unparen(x.Args[0])
			if cl, ok := arg.(*ast.CompositeLit); ok && role != "" {
				vals, err := te.evalAll(cl.Elts, env)
				if err != nil {
					return false, err
				}
				return te.combine(role, vals, x)
			}
			return false, fmt.Errorf("conversion at %s is not in the tree language", te.w.Pos(x.Pos()))
		}
		var id *ast.Ident
		switch fx := ast.Unparen(x.Fun).(type) {
		case *ast.Ident:
			id = fx
		case *ast.SelectorExpr:
			id = fx.Sel
		}
		if id == nil {
			return false, fmt.Errorf("call at %s is not in the tree language", te.w.Pos(x.Pos()))
		}
		fobj, ok := te.info.Uses[id].(*types.Func)
		if !ok || fobj.Pkg() == nil || fobj.Pkg().Name() != te.m.pkg || fobj.Type().(*types.Signature).Recv() != nil {
			return false, fmt.Errorf("call of %s at %s is not a constructor of the package", id.Name, te.w.Pos(x.Pos()))
		}
		if x.Ellipsis.IsValid() {
			return false, fmt.Errorf("call with a spread argument at %s", te.w.Pos(x.Pos()))
		}
		vals, err := te.evalAll(x.Args, env)
		if err != nil {
			return false, err
		}
		switch fobj.Name() {
		case "And":
			return te.combine("and", vals, x)
		case "Or":
			return te.combine("or", vals, x)
		case "Not":
			return te.combine("not", vals, x)
		case "Implies", "Eq", "Xor":
			if te.derivDepth > 4 || len(vals) != 2 {
				return false, fmt.Errorf("derived connective nested too deep at %s", te.w.Pos(x.Pos()))
			}
			te.derivDepth++
			defer func() { te.derivDepth-- }()
			return te.evalDerived(fobj.Name(), vals[0], vals[1])
		}
		return false, fmt.Errorf("call of %s at %s is not in the tree language", fobj.Name(), te.w.Pos(x.Pos()))
	}
	return false, fmt.Errorf("expression at %s is not in the tree language {and, or, not, parameters}", te.w.Pos(e.Pos()))
}

// evalDerived evaluates the tree returned by an exported derived connective for one valuation of its two parameters.
func (te *treeEval) evalDerived(name string, a, b bool) (bool, error) {
	fn := te.w.Func(te.m.pkg, name)
	decl := te.w.Decl(fn)
	if fn == nil || decl == nil || decl.Body == nil {
		return false, fmt.Errorf("function %s not found", name)
	}
	var params []types.Object
	for _, fl := range decl.Type.Params.List {
		for _, n := range fl.Names {
			params = append(params, te.info.Defs[n])
		}
	}
	if len(params) != 2 {
		return false, fmt.Errorf("%s does not have two named parameters", name)
	}
	env := &treeEnv{params: map[types.Object]bool{params[0]: a, params[1]: b}, locals: map[types.Object]ast.Expr{}}
	var rets []*ast.ReturnStmt
	bad := ""
	ast.Inspect(decl.Body, func(n ast.Node) bool {
		switch s := n.(type) {
		case *ast.FuncLit:
			bad = "function literal in the body"
			return false
		case *ast.ReturnStmt:
			rets = append(rets, s)
		case *ast.AssignStmt:
			if len(s.Lhs) != len(s.Rhs) {
				bad = "tuple assignment in the body"
				return true
			}
			for i, l := range s.Lhs {
				id, ok := l.(*ast.Ident)
				if !ok {
					bad = "assignment to a non-identifier in the body"
					continue
				}
				obj := te.info.Defs[id]
				if obj == nil {
					obj = te.info.Uses[id]
				}
				if _, isParam := env.params[obj]; isParam {
					bad = "a parameter is reassigned"
				}
				if _, dup := env.locals[obj]; dup || s.Tok != token.DEFINE {
					env.locals[obj] = nil
				} else {
					env.locals[obj] = s.Rhs[i]
				}
			}
		case *ast.IfStmt, *ast.ForStmt, *ast.RangeStmt, *ast.SwitchStmt, *ast.TypeSwitchStmt, *ast.GoStmt, *ast.DeferStmt, *ast.IncDecStmt:
			bad = "control flow in the body"
		}
		return true
	})
	if bad != "" {
		return false, fmt.Errorf("%s: %s: the returned tree cannot be read off", name, bad)
	}
	if len(rets) != 1 || len(rets[0].Results) != 1 {
		return false, fmt.Errorf("%s: expected a single return of one expression", name)
	}
	return te.eval(rets[0].Results[0], env)
}

func ruleR11_5(w *World, r *Report) {
	const id = "R11.5"
	r.Rule(id, "the trees returned by Implies, Eq and Xor, read over {and, or, not, the two parameters}, have the truth tables of implication, equivalence and exclusive or", 3)
	m, f := bfOf(w)
	if m.err != "" {
		r.Unk(id, "bf.Formula", "-", m.err)
		return
	}
	p := w.ByName[m.pkg]
	te := &treeEval{w: w, m: m, f: f, info: p.TypesInfo, andT: m.dynTypeOfCtor("And"), orT: m.dynTypeOfCtor("Or"), notT: m.dynTypeOfCtor("Not"), constVal: map[string]bool{}}
	for _, t := range m.impls {
		if m.isConstType(t) {
			if v, ok := m.evalConstOf(t); ok {
				te.constVal[typeShort(t)] = v
			}
		}
	}
	if te.andT == nil || te.orT == nil || te.notT == nil {
		r.Unk(id, "constructors", "-", "the dynamic types returned by And / Or / Not could not be resolved")
		return
	}
	want := []struct {
		name string
		tt   func(a, b bool) bool
		sym  string
	}{
		{"Implies", func(a, b bool) bool { return !a || b }, "a -> b"},
		{"Eq", func(a, b bool) bool { return a == b }, "a <-> b"},
		{"Xor", func(a, b bool) bool { return a != b }, "a xor b"},
	}
	for _, c := range want {
		key := m.pkg + "." + c.name + " truth table"
		fn := w.Func(m.pkg, c.name)
		if fn == nil {
			r.Unk(id, key, "-", "exported function not found")
			continue
		}
		pos := w.Pos(fn.Pos())
		var rows, wrong []string
		var evalErr error
		for _, a := range []bool{false, true} {
			for _, b := range []bool{false, true} {
				got, err := te.evalDerived(c.name, a, b)
				if err != nil {
					evalErr = err
					break
				}
				rows = append(rows, fmt.Sprintf("%d%d:%d", b2i(a), b2i(b), b2i(got)))
				if got != c.tt(a, b) {
					wrong = append(wrong, fmt.Sprintf("a=%v b=%v gives %v, %s is %v", a, b, got, c.sym, c.tt(a, b)))
				}
			}
			if evalErr != nil {
				break
			}
		}
		switch {
		case evalErr != nil:
			r.Unk(id, key, pos, evalErr.Error())
		case len(wrong) > 0:
			r.Bad(id, key, pos, "returned tree has the wrong truth table: "+strings.Join(wrong, "; "))
		default:
			r.OK(id, key, pos, "ab:result "+strings.Join(rows, " ")+" = "+c.sym)
		}
	}
}

func b2i(b bool) int {
	if b {
		return 1
	}
	return 0
}

// ---------------------------------------------------------------------------------------------------------------
// shared SSA shape helpers
// ---------------------------------------------------------------------------------------------------------------

func bfIsLenOf(v, x ssa.Value) bool {
	c, ok := v.(*ssa.Call)
	if !ok {
		return false
	}
	b, ok := c.Call.Value.(*ssa.Builtin)
	return ok && b.Name() == "len" && len(c.Call.Args) == 1 && c.Call.Args[0] == x
}

// fullRangeIndex: idx runs over every index of x (0 .. len(x)-1) in a loop that is only left through its header.
// Accepts the lowering of `for i := range x` / `for i, e := range x` and of `for i := 0; i < len(x); i++`.
// Returns the loop header.
func bfFullRangeIndex(fn *ssa.Function, idx, x ssa.Value) (*ssa.BasicBlock, string) {
	var phi *ssa.Phi
	var bound ssa.Value // the value compared with len(x) in the header
	switch v := idx.(type) {
	case *ssa.BinOp: // range lowering: idx = phi + 1, phi = [-1, idx]
		p, ok := v.X.(*ssa.Phi)
		one, isOne := constInt(v.Y)
		if v.Op != token.ADD || !ok || !isOne || one != 1 {
			return nil, "index is not a loop counter"
		}
		for _, e := range p.Edges {
			if e == ssa.Value(v) {
				continue
			}
			if k, ok := constInt(e); !ok || k != -1 {
				return nil, "loop counter does not start at the first element"
			}
		}
		phi, bound = p, v
	case *ssa.Phi: // classic loop: phi = [0, phi+1]
		for _, e := range v.Edges {
			if k, ok := constInt(e); ok && k == 0 {
				continue
			}
			bo, ok := e.(*ssa.BinOp)
			one, isOne := int64(0), false
			if ok {
				one, isOne = constInt(bo.Y)
			}
			if !ok || bo.Op != token.ADD || bo.X != ssa.Value(v) || !isOne || one != 1 {
				return nil, "loop counter does not start at 0 and advance by 1"
			}
		}
		phi, bound = v, v
	default:
		return nil, "index is not a loop counter"
	}
	h := phi.Block()
	iff, ok := h.Instrs[len(h.Instrs)-1].(*ssa.If)
	if !ok {
		return nil, "loop header does not test the counter"
	}
	cond, ok := iff.Cond.(*ssa.BinOp)
	if !ok || cond.Op != token.LSS || cond.X != bound || !bfIsLenOf(cond.Y, x) {
		return nil, "loop is not bounded by the length of the slice"
	}
	body := loopBlocks(fn, h)
	if !body[h.Succs[0]] || body[h.Succs[1]] {
		return nil, "loop shape not recognised"
	}
	for b := range body {
		if b == h {
			continue
		}
		for _, s := range b.Succs {
			if !body[s] {
				return nil, "the loop can be left before the last element (" + blockName(b) + ")"
			}
		}
		if len(b.Succs) == 0 {
			return nil, "the loop can be left before the last element (" + blockName(b) + ")"
		}
	}
	return h, ""
}

// dominatesLatches: block b is executed in every iteration of the loop with header h.
func dominatesLatches(h, b *ssa.BasicBlock) bool {
	for _, p := range h.Preds {
		if h.Dominates(p) && !b.Dominates(p) {
			return false
		}
	}
	return true
}

// varargValues: the values packed into a slice built from a fresh array (variadic call, slice literal).
func varargValues(v ssa.Value) ([]ssa.Value, bool) {
	sl, ok := v.(*ssa.Slice)
	if !ok {
		return nil, false
	}
	al, ok := sl.X.(*ssa.Alloc)
	if !ok {
		return nil, false
	}
	var out []ssa.Value
	for _, ref := range *al.Referrers() {
		switch y := ref.(type) {
		case *ssa.IndexAddr:
			for _, r2 := range *y.Referrers() {
				if st, ok := r2.(*ssa.Store); ok && st.Addr == y {
					out = append(out, st.Val)
				}
			}
		case *ssa.Slice, *ssa.DebugRef:
		default:
			return nil, false
		}
	}
	return out, true
}

func sameIndex(a, b ssa.Value) bool {
	if a == b {
		return true
	}
	ka, oka := constInt(a)
	kb, okb := constInt(b)
	return oka && okb && ka == kb
}

func isNegOf(v, d ssa.Value) bool {
	switch x := v.(type) {
	case *ssa.UnOp:
		return x.Op == token.SUB && x.X == d
	case *ssa.BinOp:
		if x.Op == token.SUB && x.Y == d {
			k, ok := constInt(x.X)
			return ok && k == 0
		}
	}
	return false
}

// ---------------------------------------------------------------------------------------------------------------
// R11.6 guard coverage
// ---------------------------------------------------------------------------------------------------------------

// freshIndex: v = len(<map field>)+1, the shape in which the package allocates a new variable index.
func freshIndex(v ssa.Value) (field *ssa.FieldAddr, ok bool) {
	bo, isB := v.(*ssa.BinOp)
	if !isB || bo.Op != token.ADD {
		return nil, false
	}
	l, k := bo.X, bo.Y
	if _, isK := constInt(l); isK {
		l, k = k, l
	}
	if one, isK := constInt(k); !isK || one != 1 {
		return nil, false
	}
	c, isC := l.(*ssa.Call)
	if !isC {
		return nil, false
	}
	b, isBi := c.Call.Value.(*ssa.Builtin)
	if !isBi || b.Name() != "len" || len(c.Call.Args) != 1 {
		return nil, false
	}
	ld, isL := c.Call.Args[0].(*ssa.UnOp)
	if !isL || ld.Op != token.MUL {
		return nil, false
	}
	fa, isF := ld.X.(*ssa.FieldAddr)
	if !isF {
		return nil, false
	}
	if _, isMap := ld.Type().Underlying().(*types.Map); !isMap {
		return nil, false
	}
	return fa, true
}

// isIntResult: the function returns exactly one int.
func isIntResult(fn *ssa.Function) bool {
	res := fn.Signature.Results()
	if res.Len() != 1 {
		return false
	}
	b, ok := res.At(0).Type().Underlying().(*types.Basic)
	return ok && b.Kind() == types.Int
}

// auxAllocators: functions of the package that hand out a fresh variable index (return len(map)+1) and take no
// formula: they create auxiliary (dummy) variables.
func (m *bfModel) auxAllocators() map[*ssa.Function]bool {
	out := map[*ssa.Function]bool{}
	for _, fn := range m.fns {
		if !isIntResult(fn) {
			continue
		}
		takesFormula := false
		for i, p := range fn.Params {
			if i == 0 && fn.Signature.Recv() != nil {
				continue
			}
			if m.isImpl(p.Type()) || m.isFormula(p.Type()) {
				takesFormula = true
			}
		}
		if takesFormula {
			continue
		}
		for _, b := range fn.Blocks {
			if ret, ok := b.Instrs[len(b.Instrs)-1].(*ssa.Return); ok && len(ret.Results) == 1 {
				if _, ok := freshIndex(ret.Results[0]); ok {
					out[fn] = true
				}
				// the fresh index may come from a shared numbering step (`return vars.add(dummyVar(name))`)
				if c, isC := ret.Results[0].(*ssa.Call); isC {
					if g := c.Call.StaticCallee(); g != nil && returnsFreshIndex(g) {
						out[fn] = true
					}
				}
			}
		}
	}
	return out
}

// returnsFreshIndex: every return of g hands back len(<map field>)+1.
func returnsFreshIndex(g *ssa.Function) bool {
	n, all := 0, true
	for _, b := range g.Blocks {
		if ret, ok := b.Instrs[len(b.Instrs)-1].(*ssa.Return); ok && len(ret.Results) == 1 {
			n++
			if _, ok := freshIndex(ret.Results[0]); !ok {
				all = false
			}
		}
	}
	return n > 0 && all
}

func isClauseList(t types.Type) bool {
	s1, ok := t.Underlying().(*types.Slice)
	if !ok {
		return false
	}
	s2, ok := s1.Elem().Underlying().(*types.Slice)
	if !ok {
		return false
	}
	b, ok := s2.Elem().Underlying().(*types.Basic)
	return ok && b.Kind() == types.Int
}

func ruleR11_6(w *World, r *Report) {
	const id = "R11.6"
	r.Rule(id, "where the CNF translation creates an auxiliary variable for a conjunct of a disjunction and splices the conjunct's clauses into the output, the negated auxiliary literal is appended to every one of these clauses (a full-range loop), not to some of them", 1)
	m, _ := bfOf(w)
	if m.err != "" {
		r.Unk(id, "bf.Formula", "-", m.err)
		return
	}
	aux := m.auxAllocators()
	if len(aux) == 0 {
		r.Unk(id, "auxiliary-variable allocator", "-", "no function of the package returns a fresh index len(map)+1 without taking a formula")
		return
	}
	sites := 0
	for _, fn := range m.fns {
		n := 0
		for _, call := range callsIn(fn) {
			d, ok := call.(*ssa.Call)
			if !ok {
				continue
			}
			sc := d.Call.StaticCallee()
			if sc == nil || !aux[w.unwrap(sc)] {
				continue
			}
			if fn.Signature.Results().Len() != 1 || !isClauseList(fn.Signature.Results().At(0).Type()) {
				continue // an allocator called outside the translation
			}
			n++
			// clause lists produced under this auxiliary variable
			k := 0
			for _, c2 := range callsIn(fn) {
				rc, ok := c2.(*ssa.Call)
				if !ok || !isClauseList(rc.Type()) || !instrDominates(d, rc) {
					continue
				}
				if _, isBuiltin := rc.Call.Value.(*ssa.Builtin); isBuiltin {
					continue
				}
				// the splice may live in a helper that is handed the auxiliary literal (`res = appendGuarded(res, sub, d, vars)`):
				// the obligation is then about the clause lists produced inside the helper, with its parameter as the guard
				if h := rc.Call.StaticCallee(); h != nil && len(h.Blocks) > 0 && m.inPkg[w.unwrap(h)] {
					h = w.unwrap(h)
					pi := -1
					for ai, a := range rc.Call.Args {
						if a == ssa.Value(d) {
							pi = ai
						}
					}
					if pi >= 0 && pi < len(h.Params) {
						inner := 0
						for _, c3 := range callsIn(h) {
							rc3, ok3 := c3.(*ssa.Call)
							if !ok3 || !isClauseList(rc3.Type()) {
								continue
							}
							if _, isBuiltin := rc3.Call.Value.(*ssa.Builtin); isBuiltin {
								continue
							}
							inner++
							k++
							sites++
							key := fmt.Sprintf("%s auxiliary variable #%d, guarded clause list #%d (in %s)", w.FuncName(fn), n, k, w.FuncName(h))
							st, detail := guardCoverage(h, h.Params[pi], rc3)
							switch st {
							case Discharged:
								r.OK(id, key, w.InstrPos(rc3), detail)
							case Violated:
								r.Bad(id, key, w.InstrPos(rc3), detail)
							default:
								r.Unk(id, key, w.InstrPos(rc3), detail)
							}
						}
						if inner > 0 {
							continue
						}
					}
				}
				k++
				sites++
				key := fmt.Sprintf("%s auxiliary variable #%d, guarded clause list #%d", w.FuncName(fn), n, k)
				st, detail := guardCoverage(fn, d, rc)
				switch st {
				case Discharged:
					r.OK(id, key, w.InstrPos(rc), detail)
				case Violated:
					r.Bad(id, key, w.InstrPos(rc), detail)
				default:
					r.Unk(id, key, w.InstrPos(rc), detail)
				}
			}
			if k == 0 {
				sites++
				r.Unk(id, fmt.Sprintf("%s auxiliary variable #%d", w.FuncName(fn), n), w.InstrPos(d), "no clause list is produced under this auxiliary variable: the translation changed shape")
			}
		}
	}
	if sites == 0 {
		r.Unk(id, "auxiliary-variable sites", "-", "no call of an auxiliary-variable allocator found in a function returning clauses")
	}
}

// guardCoverage decides whether every clause of the list R (result of call rc) receives the literal -d before it
// reaches the output.
func guardCoverage(fn *ssa.Function, d ssa.Value, rc *ssa.Call) (Status, string) {
	var elems []*ssa.IndexAddr
	var splices []*ssa.Call
	for _, ref := range *rc.Referrers() {
		switch y := ref.(type) {
		case *ssa.IndexAddr:
			if y.X == ssa.Value(rc) {
				elems = append(elems, y)
			}
		case *ssa.Call:
			if b, ok := y.Call.Value.(*ssa.Builtin); ok {
				switch b.Name() {
				case "len", "cap":
					continue
				case "append":
					if len(y.Call.Args) == 2 && y.Call.Args[1] == ssa.Value(rc) && y.Call.Args[0] != ssa.Value(rc) {
						splices = append(splices, y)
						continue
					}
				}
			}
			return Undecided, "the clause list is used in a way the rule does not model (" + y.String() + ")"
		case *ssa.DebugRef:
		default:
			return Undecided, "the clause list is used in a way the rule does not model (" + ref.String() + ")"
		}
	}
	// guarded element writes: R[i] = append(R[i], -d)   /  guarded element reads: append(R[i], -d) handed on
	type guard struct {
		idx   ssa.Value
		block *ssa.BasicBlock
		store bool
	}
	var guards []guard
	var unguardedReads []ssa.Instruction
	for _, ia := range elems {
		for _, ref := range *ia.Referrers() {
			switch y := ref.(type) {
			case *ssa.Store:
				if y.Addr != ssa.Value(ia) {
					return Undecided, "address of a clause escapes"
				}
				ap, ok := y.Val.(*ssa.Call)
				if !ok {
					return Undecided, "a clause of the list is overwritten by something else than an append"
				}
				if g, why := isGuardAppend(ap, rc, d); g != nil {
					if !sameIndex(g, ia.Index) {
						return Undecided, "clause " + ia.Index.Name() + " is overwritten with the guarded form of another clause"
					}
					guards = append(guards, guard{ia.Index, y.Block(), true})
				} else {
					return Undecided, "a clause of the list is overwritten: " + why
				}
			case *ssa.UnOp:
				// a read: either feeds a guard append or hands the clause on unguarded
				for _, r2 := range *y.Referrers() {
					switch u := r2.(type) {
					case *ssa.DebugRef:
						continue
					case *ssa.Call:
						if bi, ok := u.Call.Value.(*ssa.Builtin); ok && (bi.Name() == "len" || bi.Name() == "cap") {
							continue
						}
						if g, _ := isGuardAppend(u, rc, d); g != nil {
							// element-wise transfer when the guarded clause is not written back but handed on
							writtenBack := false
							for _, r3 := range *u.Referrers() {
								if st, ok := r3.(*ssa.Store); ok {
									if ia2, ok := st.Addr.(*ssa.IndexAddr); ok && ia2.X == ssa.Value(rc) {
										writtenBack = true
									}
								}
							}
							if !writtenBack {
								guards = append(guards, guard{ia.Index, u.Block(), false})
							}
							continue
						}
					}
					unguardedReads = append(unguardedReads, r2)
				}
			case *ssa.DebugRef:
			default:
				return Undecided, "address of a clause escapes (" + ref.String() + ")"
			}
		}
	}
	if len(unguardedReads) > 0 {
		return Violated, fmt.Sprintf("a clause of the list is handed on without the negated auxiliary literal (%s)", unguardedReads[0].String())
	}
	inPlace := false
	var full []*ssa.BasicBlock
	var partial []string
	for _, g := range guards {
		h, why := bfFullRangeIndex(fn, g.idx, rc)
		if h == nil {
			if k, ok := constInt(g.idx); ok {
				partial = append(partial, fmt.Sprintf("only clause [%d] of the list receives the negated auxiliary literal", k))
			} else {
				partial = append(partial, "the guard is not applied in a full-range loop over the list: "+why)
			}
			continue
		}
		if !dominatesLatches(h, g.block) {
			partial = append(partial, "the guard is applied conditionally inside the loop")
			continue
		}
		full = append(full, h)
		if g.store {
			inPlace = true
		}
	}
	if len(splices) > 0 {
		// every splice must come after a full in-place guard loop
		if !inPlace || len(full) == 0 {
			if len(partial) > 0 {
				return Violated, partial[0] + ", but the whole list (of unknown length) is spliced into the output"
			}
			return Violated, "the list is spliced into the output and no clause of it receives the negated auxiliary literal"
		}
		for _, sp := range splices {
			ok := false
			for _, h := range full {
				if h.Dominates(sp.Block()) && !loopBlocks(fn, h)[sp.Block()] {
					ok = true
				}
			}
			if !ok {
				return Violated, "the list is spliced into the output at a point not preceded by the guard loop"
			}
		}
		return Discharged, fmt.Sprintf("every clause receives -%s in a full-range loop before the list is spliced into the output", d.Name())
	}
	if len(full) > 0 && len(partial) == 0 {
		return Discharged, "every clause is handed on in guarded form by a full-range loop"
	}
	if len(partial) > 0 {
		return Violated, partial[0]
	}
	return Undecided, "the clause list neither reaches the output by a splice nor clause by clause"
}

// isGuardAppend: call is append(R[i], -d); returns the index value i.
func isGuardAppend(ap *ssa.Call, rc *ssa.Call, d ssa.Value) (ssa.Value, string) {
	b, ok := ap.Call.Value.(*ssa.Builtin)
	if !ok || b.Name() != "append" || len(ap.Call.Args) != 2 {
		return nil, "not an append"
	}
	ld, ok := ap.Call.Args[0].(*ssa.UnOp)
	if !ok || ld.Op != token.MUL {
		return nil, "appends to something else than a clause of the list"
	}
	ia, ok := ld.X.(*ssa.IndexAddr)
	if !ok || ia.X != ssa.Value(rc) {
		return nil, "appends to something else than a clause of the list"
	}
	vals, ok := varargValues(ap.Call.Args[1])
	if !ok {
		return nil, "appended values not resolved"
	}
	found := false
	for _, v := range vals {
		if isNegOf(v, d) {
			found = true
		}
	}
	if !found {
		return nil, "the negated auxiliary literal is not among the appended values"
	}
	return ia.Index, ""
}

// ---------------------------------------------------------------------------------------------------------------
// R11.4 duality of the negation's normal form
// ---------------------------------------------------------------------------------------------------------------

// structAt reads a struct value loaded from a local cell whose writes all precede the load in the same block:
// whole is the last value stored into the whole cell, fields the later per-field stores.
func structAt(load *ssa.UnOp) (whole ssa.Value, fields map[int]ssa.Value, ok bool) {
	a, isA := load.X.(*ssa.Alloc)
	if !isA || load.Op != token.MUL {
		return nil, nil, false
	}
	b := load.Block()
	for _, ref := range *a.Referrers() {
		switch y := ref.(type) {
		case *ssa.Store:
			if y.Addr != ssa.Value(a) || y.Block() != b {
				return nil, nil, false
			}
		case *ssa.FieldAddr:
			for _, r2 := range *y.Referrers() {
				switch z := r2.(type) {
				case *ssa.Store:
					if z.Addr != ssa.Value(y) || z.Block() != b {
						return nil, nil, false
					}
				case *ssa.UnOp, *ssa.DebugRef:
				default:
					return nil, nil, false
				}
			}
		case *ssa.UnOp, *ssa.DebugRef:
		default:
			return nil, nil, false
		}
	}
	fields = map[int]ssa.Value{}
	for _, ins := range b.Instrs {
		if ins == ssa.Instruction(load) {
			break
		}
		st, isSt := ins.(*ssa.Store)
		if !isSt {
			continue
		}
		if st.Addr == ssa.Value(a) {
			whole = st.Val
			fields = map[int]ssa.Value{}
		} else if fa, isF := st.Addr.(*ssa.FieldAddr); isF && fa.X == ssa.Value(a) {
			fields[fa.Field] = st.Val
		}
	}
	return whole, fields, true
}

// arrayElem0Of: v is element 0 of the array value arr (through a local copy or a direct index).
func arrayElemOf(v ssa.Value, arr ssa.Value) bool {
	switch x := v.(type) {
	case *ssa.Index:
		return x.X == arr
	case *ssa.UnOp:
		if x.Op != token.MUL {
			return false
		}
		ia, ok := x.X.(*ssa.IndexAddr)
		if !ok {
			return false
		}
		if ia.X == arr {
			return true
		}
		al, ok := ia.X.(*ssa.Alloc)
		if !ok {
			return false
		}
		n := 0
		okStore := false
		for _, ref := range *al.Referrers() {
			if st, ok := ref.(*ssa.Store); ok && st.Addr == ssa.Value(al) {
				n++
				okStore = st.Val == arr
			}
		}
		return n == 1 && okStore
	}
	return false
}

// litRoles: the literal type (struct with one bool field - the sign - and one field of another implementing type -
// the variable) and the variable type.
func (m *bfModel) litRoles() (litT, varT types.Type, signIdx, varIdx int, ok bool) {
	for _, t := range m.impls {
		st, isS := t.Underlying().(*types.Struct)
		if !isS || st.NumFields() != 2 {
			continue
		}
		si, vi := -1, -1
		for i := 0; i < st.NumFields(); i++ {
			ft := st.Field(i).Type()
			if b, isB := ft.Underlying().(*types.Basic); isB && b.Kind() == types.Bool {
				si = i
			} else if m.isImpl(ft) {
				vi = i
			}
		}
		if si >= 0 && vi >= 0 {
			if ok {
				return nil, nil, 0, 0, false // ambiguous
			}
			litT, varT, signIdx, varIdx, ok = t, st.Field(vi).Type(), si, vi, true
		}
	}
	return
}

func ruleR11_4(w *World, r *Report) {
	const id = "R11.4"
	r.Rule(id, "the negation's normal form is the De Morgan dual, case by case: and -> or of negated operands, or -> and of negated operands, true -> false, false -> true, literal -> same variable with flipped sign, negation -> normal form of the operand, variable -> negative literal of that variable", 7)
	m, f := bfOf(w)
	if m.err != "" {
		r.Unk(id, "bf.Formula", "-", m.err)
		return
	}
	notT := m.dynTypeOfCtor("Not")
	if notT == nil {
		r.Unk(id, "bf.Not", "-", "cannot resolve the dynamic type bf.Not returns")
		return
	}
	nf := m.method(notT, m.nnf)
	if nf == nil {
		r.Unk(id, "bf.Not", "-", "negation type has no normal-form method")
		return
	}
	fname := w.FuncName(nf)
	conns := m.naryConnectives()
	litT, varT, signIdx, varIdx, litOK := m.litRoles()
	constVal := map[string]bool{}
	for _, t := range m.impls {
		if m.isConstType(t) {
			if v, ok := m.evalConstOf(t); ok {
				constVal[typeShort(t)] = v
			}
		}
	}
	// the cases: comma-ok assertions on the operand
	type caseInfo struct {
		ta   *ssa.TypeAssert
		val  ssa.Value // the asserted value
		succ *ssa.BasicBlock
	}
	cases := map[string]*caseInfo{}
	for _, b := range nf.Blocks {
		for _, ins := range b.Instrs {
			ta, ok := ins.(*ssa.TypeAssert)
			if !ok || !ta.CommaOk || !m.isFormula(ta.X.Type()) || !m.isImpl(ta.AssertedType) {
				continue
			}
			if !arrayElemOf(ta.X, nf.Params[0]) {
				continue
			}
			ci := &caseInfo{ta: ta}
			for _, ref := range *ta.Referrers() {
				if ex, ok := ref.(*ssa.Extract); ok {
					if ex.Index == 0 {
						ci.val = ex
					} else {
						for _, r2 := range *ex.Referrers() {
							if iff, ok := r2.(*ssa.If); ok {
								ci.succ = iff.Block().Succs[0]
							}
						}
					}
				}
			}
			cases[typeShort(ta.AssertedType)] = ci
		}
	}
	returnsUnder := func(s *ssa.BasicBlock) []*ssa.Return {
		var out []*ssa.Return
		if s == nil || len(s.Preds) != 1 {
			return nil
		}
		for _, b := range nf.Blocks {
			if s.Dominates(b) {
				if ret, ok := b.Instrs[len(b.Instrs)-1].(*ssa.Return); ok && len(ret.Results) == 1 {
					out = append(out, ret)
				}
			}
		}
		return out
	}
	for _, t := range m.impls {
		name := typeShort(t)
		key := fname + " case " + name
		ci := cases[name]
		if ci == nil || ci.succ == nil || ci.val == nil {
			r.Unk(id, key, w.Pos(nf.Pos()), "no case for this type found in the dispatch over the negation's operand")
			continue
		}
		rets := returnsUnder(ci.succ)
		if len(rets) == 0 {
			r.Unk(id, key, w.InstrPos(ci.ta), "the case does not return (or shares its code with another case)")
			continue
		}
		st, detail, pos := Discharged, "", w.InstrPos(rets[0])
		worse := func(s Status, d string, p string) {
			if s > st || detail == "" {
				st, detail, pos = s, d, p
			}
		}
		for _, ret := range rets {
			rv := ret.Results[0]
			rp := w.InstrPos(ret)
			switch {
			case m.isConstType(t):
				ts := f.narrowed(rv, ret.Block()).types()
				if len(ts) != 1 || !m.isConstType(m.implByName(ts[0])) {
					worse(Undecided, fmt.Sprintf("returns a value of dynamic types %v, not a single constant", ts), rp)
					break
				}
				a, okA := constVal[name]
				b, okB := constVal[ts[0]]
				if !okA || !okB {
					worse(Undecided, "truth value of the constants not resolved", rp)
				} else if a == b {
					worse(Violated, fmt.Sprintf("the negation of %s [%v] is %s [%v]", name, a, ts[0], b), rp)
				} else {
					worse(Discharged, fmt.Sprintf("returns %s [%v]", ts[0], b), rp)
				}
			case types.Identical(t, notT):
				c, ok := rv.(*ssa.Call)
				if ok && m.isNNFInvoke(c.Common()) && arrayElemOf(c.Call.Value, ci.val) {
					worse(Discharged, "returns the normal form of the operand of the inner negation", rp)
				} else {
					worse(Undecided, "does not return <operand of the inner negation>."+m.nnf.Name()+"()", rp)
				}
			case isIn(t, conns):
				s2, d2 := dualCase(m, nf, t, conns, ci.val, rv)
				worse(s2, d2, rp)
			case litOK && types.Identical(t, litT):
				s2, d2 := flippedLit(ci.val, rv, signIdx)
				worse(s2, d2, rp)
			case litOK && types.Identical(t, varT):
				s2, d2 := negativeLit(m, ci.val, rv, litT, varT, signIdx, varIdx)
				worse(s2, d2, rp)
			default:
				worse(Undecided, "the rule knows no dual for this kind of formula type", rp)
			}
		}
		switch st {
		case Discharged:
			r.OK(id, key, pos, detail)
		case Violated:
			r.Bad(id, key, pos, detail)
		default:
			r.Unk(id, key, pos, detail)
		}
	}
}

func isIn(t types.Type, ts []types.Type) bool {
	for _, u := range ts {
		if types.Identical(t, u) {
			return true
		}
	}
	return false
}

// dualCase: the case of n-ary connective c must return D(negated operands) with D the other connective, normalised
// by D's normal-form method (or handed on as a D value).
func dualCase(m *bfModel, nf *ssa.Function, c types.Type, conns []types.Type, operand ssa.Value, rv ssa.Value) (Status, string) {
	if len(conns) != 2 {
		return Undecided, fmt.Sprintf("%d n-ary connectives: the dual is not determined", len(conns))
	}
	dual := conns[0]
	if types.Identical(dual, c) {
		dual = conns[1]
	}
	var conv ssa.Value
	switch x := rv.(type) {
	case *ssa.Call:
		sc := x.Call.StaticCallee()
		if sc == nil || len(x.Call.Args) != 1 {
			return Undecided, "returned value is not the normal form of a converted operand list"
		}
		sc = m.w.unwrap(sc)
		isNNF := false
		for _, cc := range conns {
			if sc == m.method(cc, m.nnf) {
				isNNF = true
			}
		}
		if !isNNF {
			return Undecided, "returned value is not produced by the normal-form method of an n-ary connective"
		}
		conv = x.Call.Args[0]
	case *ssa.MakeInterface:
		conv = x.X
	default:
		return Undecided, "returned value is not the normal form of a converted operand list"
	}
	if !isIn(conv.Type(), conns) {
		return Undecided, "returned value is not built from an n-ary connective"
	}
	if types.Identical(conv.Type(), c) {
		return Violated, fmt.Sprintf("the negation of %s is built as %s again; De Morgan requires %s", typeShort(c), typeShort(conv.Type()), typeShort(dual))
	}
	// the operand list
	var list ssa.Value
	switch x := conv.(type) {
	case *ssa.ChangeType:
		list = x.X
	case *ssa.Convert:
		list = x.X
	case *ssa.Slice:
		list = x
	default:
		return Undecided, "the operand list of the dual is not a converted slice"
	}
	// the list may be built by a helper that receives the operands: continue inside it
	loopFn := nf
	for depth := 0; depth < 2; depth++ {
		call, ok := list.(*ssa.Call)
		if !ok {
			break
		}
		sc := call.Call.StaticCallee()
		if sc == nil || len(call.Call.Args) != 1 || len(sc.Params) != 1 || len(sc.Blocks) == 0 {
			return Undecided, "the operand list of the dual comes from a call the rule cannot follow"
		}
		sc = m.w.unwrap(sc)
		arg := call.Call.Args[0]
		if ct, ok := arg.(*ssa.ChangeType); ok {
			arg = ct.X
		}
		if arg != operand {
			return Violated, "the helper that builds the operand list of the dual is not given the operands of the negated connective"
		}
		var ret ssa.Value
		nret := 0
		for _, b := range sc.Blocks {
			if r, ok := b.Instrs[len(b.Instrs)-1].(*ssa.Return); ok && len(r.Results) == 1 {
				ret = r.Results[0]
				nret++
			}
		}
		if nret != 1 {
			return Undecided, "the helper that builds the operand list has several returns"
		}
		operand, list, loopFn = sc.Params[0], ret, sc
	}
	var elemStores []*ssa.Store
	collect := func(base ssa.Value) bool {
		for _, ref := range *base.Referrers() {
			switch y := ref.(type) {
			case *ssa.IndexAddr:
				for _, r2 := range *y.Referrers() {
					if st, ok := r2.(*ssa.Store); ok && st.Addr == ssa.Value(y) {
						elemStores = append(elemStores, st)
					}
				}
			case *ssa.Call:
				if b, ok := y.Call.Value.(*ssa.Builtin); !ok || (b.Name() != "len" && b.Name() != "cap") {
					return false
				}
			case *ssa.ChangeType, *ssa.Convert, *ssa.Slice, *ssa.DebugRef:
			case *ssa.Return:
				if loopFn == nf {
					return false
				}
			default:
				return false
			}
		}
		return true
	}
	switch x := list.(type) {
	case *ssa.MakeSlice:
		if !bfIsLenOf(x.Len, operand) {
			return Undecided, "the operand list of the dual is not allocated with the length of the negated connective"
		}
		if !collect(x) {
			return Undecided, "the operand list of the dual is used in a way the rule does not model"
		}
	default:
		return Undecided, "the operand list of the dual is not a slice made with the operand count and filled by index"
	}
	if len(elemStores) == 0 {
		return Undecided, "no operand is stored into the dual's operand list"
	}
	for _, st := range elemStores {
		ia := st.Addr.(*ssa.IndexAddr)
		// the stored value: normal form of not{operand[i]} (or the not value itself)
		var negArg ssa.Value
		switch v := st.Val.(type) {
		case *ssa.Call:
			sc := v.Call.StaticCallee()
			if sc == nil || m.w.unwrap(sc) != nf || len(v.Call.Args) != 1 {
				return Violated, "an operand of the dual is not the negation of an operand: " + v.String()
			}
			negArg = v.Call.Args[0]
		case *ssa.MakeInterface:
			if !types.Identical(v.X.Type(), nf.Params[0].Type()) {
				return Violated, "an operand of the dual is not the negation of an operand: " + v.String()
			}
			negArg = v.X
		default:
			return Violated, "an operand of the dual is not the negation of an operand: " + st.Val.String()
		}
		// negArg is a negation value whose operand is operand[i]
		ld, ok := negArg.(*ssa.UnOp)
		if !ok || ld.Op != token.MUL {
			return Undecided, "negated operand not built as a local composite"
		}
		al, ok := ld.X.(*ssa.Alloc)
		if !ok {
			return Undecided, "negated operand not built as a local composite"
		}
		var inner ssa.Value
		n := 0
		for _, ref := range *al.Referrers() {
			if ia2, ok := ref.(*ssa.IndexAddr); ok {
				for _, r2 := range *ia2.Referrers() {
					if s2, ok := r2.(*ssa.Store); ok && s2.Addr == ssa.Value(ia2) {
						inner = s2.Val
						n++
					}
				}
			}
		}
		if n != 1 {
			return Undecided, "negated operand not built as a local composite with one operand"
		}
		eld, ok := inner.(*ssa.UnOp)
		if !ok || eld.Op != token.MUL {
			return Violated, "the negated value is not an operand of the connective"
		}
		eia, ok := eld.X.(*ssa.IndexAddr)
		if !ok || eia.X != operand {
			return Violated, "the negated value is not an operand of the connective"
		}
		if !sameIndex(eia.Index, ia.Index) {
			return Undecided, "operand i of the dual is not the negation of operand i"
		}
		h, why := bfFullRangeIndex(loopFn, ia.Index, operand)
		if h == nil {
			return Undecided, "the operands are not negated in a full-range loop: " + why
		}
		if !dominatesLatches(h, st.Block()) {
			return Undecided, "an operand is negated conditionally"
		}
	}
	return Discharged, fmt.Sprintf("returns %s over the negated operands", typeShort(dual))
}

// fieldOfValue: v is field #idx of the struct value s, read directly or through an unmodified local copy of s.
func fieldOfValue(v ssa.Value, s ssa.Value) (int, bool) {
	switch x := v.(type) {
	case *ssa.Field:
		if x.X == s {
			return x.Field, true
		}
	case *ssa.UnOp:
		if x.Op != token.MUL {
			return 0, false
		}
		fa, ok := x.X.(*ssa.FieldAddr)
		if !ok {
			return 0, false
		}
		al, ok := fa.X.(*ssa.Alloc)
		if !ok {
			return 0, false
		}
		stores := 0
		for _, ref := range *al.Referrers() {
			switch y := ref.(type) {
			case *ssa.Store:
				if y.Addr != ssa.Value(al) || y.Val != s {
					return 0, false
				}
				stores++
			case *ssa.FieldAddr:
				for _, r2 := range *y.Referrers() {
					switch r2.(type) {
					case *ssa.UnOp, *ssa.DebugRef:
					default:
						return 0, false
					}
				}
			case *ssa.UnOp, *ssa.DebugRef:
			default:
				return 0, false
			}
		}
		if stores == 1 {
			return fa.Field, true
		}
	}
	return 0, false
}

// flippedLit: returns the same literal with the sign field negated.
func flippedLit(operand ssa.Value, rv ssa.Value, signIdx int) (Status, string) {
	mi, ok := rv.(*ssa.MakeInterface)
	if !ok || !types.Identical(mi.X.Type(), operand.Type()) {
		return Undecided, "does not return a literal"
	}
	if mi.X == operand {
		return Violated, "the literal is returned with its sign unchanged"
	}
	ld, ok := mi.X.(*ssa.UnOp)
	if !ok {
		return Undecided, "returned literal is not a local struct value"
	}
	whole, fields, ok := structAt(ld)
	if !ok {
		return Undecided, "returned literal is not a straight-line local struct value"
	}
	al := ld.X
	sign := func(v ssa.Value) (neg bool, base bool) {
		// base: v is the operand's sign field
		for i := 0; i < 4; i++ {
			if u, ok := v.(*ssa.UnOp); ok && u.Op == token.NOT {
				neg = !neg
				v = u.X
				continue
			}
			break
		}
		if x, ok := v.(*ssa.UnOp); ok && x.Op == token.MUL {
			if fa, ok := x.X.(*ssa.FieldAddr); ok && fa.Field == signIdx && fa.X == al && whole == operand {
				return neg, true
			}
		}
		idx, ok := fieldOfValue(v, operand)
		return neg, ok && idx == signIdx
	}
	if whole != nil && whole != operand {
		return Undecided, "returned literal is not derived from the negated literal"
	}
	sv, has := fields[signIdx]
	if !has {
		if whole == operand {
			return Violated, "the literal is returned with its sign unchanged"
		}
		return Undecided, "sign of the returned literal not resolved"
	}
	if k, ok := sv.(*ssa.Const); ok {
		return Violated, "the sign of the returned literal is the constant " + k.String() + " instead of the flipped sign"
	}
	neg, base := sign(sv)
	if !base {
		return Undecided, "sign of the returned literal not derived from the operand's sign"
	}
	if !neg {
		return Violated, "the literal is returned with its sign unchanged"
	}
	for i, v := range fields {
		if i == signIdx {
			continue
		}
		if idx, ok := fieldOfValue(v, operand); !ok || idx != i {
			return Undecided, "another field of the literal is changed"
		}
	}
	if whole == nil && len(fields) < 2 {
		return Undecided, "the variable of the returned literal is not set"
	}
	return Discharged, "returns the literal with the sign flipped"
}

// negativeLit: returns the literal {variable: operand, sign: true}.
func negativeLit(m *bfModel, operand ssa.Value, rv ssa.Value, litT, varT types.Type, signIdx, varIdx int) (Status, string) {
	mi, ok := rv.(*ssa.MakeInterface)
	if !ok || !types.Identical(mi.X.Type(), litT) {
		return Undecided, "does not return a literal"
	}
	ld, ok := mi.X.(*ssa.UnOp)
	if !ok {
		return Undecided, "returned literal is not a local struct value"
	}
	whole, fields, ok := structAt(ld)
	if !ok {
		return Undecided, "returned literal is not a straight-line local struct value"
	}
	// sign
	sv, has := fields[signIdx]
	if !has {
		return Undecided, "the sign of the returned literal is not set in this case"
	}
	k, isK := sv.(*ssa.Const)
	if !isK || k.Value == nil || k.Value.Kind() != constant.Bool {
		return Undecided, "the sign of the returned literal is not a boolean literal"
	}
	if !constant.BoolVal(k.Value) {
		return Violated, "the negation of a variable is returned as a positive literal"
	}
	// variable
	if vv, has := fields[varIdx]; has {
		if vv != operand {
			return Violated, "the returned literal is over another variable"
		}
		return Discharged, "returns the negative literal of the variable"
	}
	ta, ok := whole.(*ssa.TypeAssert)
	if !ok || ta.CommaOk || !types.Identical(ta.AssertedType, litT) {
		return Undecided, "variable of the returned literal not resolved"
	}
	c, ok := ta.X.(*ssa.Call)
	vn := m.method(varT, m.nnf)
	if !ok || vn == nil || c.Call.StaticCallee() == nil || m.w.unwrap(c.Call.StaticCallee()) != vn || len(c.Call.Args) != 1 || c.Call.Args[0] != operand {
		return Undecided, "variable of the returned literal not resolved"
	}
	// the variable's own normal form must be the positive literal over the receiver
	for _, b := range vn.Blocks {
		ret, ok := b.Instrs[len(b.Instrs)-1].(*ssa.Return)
		if !ok {
			continue
		}
		if len(ret.Results) != 1 {
			return Undecided, "normal form of a variable not understood"
		}
		mi2, ok := ret.Results[0].(*ssa.MakeInterface)
		if !ok || !types.Identical(mi2.X.Type(), litT) {
			return Undecided, "normal form of a variable is not a literal"
		}
		ld2, ok := mi2.X.(*ssa.UnOp)
		if !ok {
			return Undecided, "normal form of a variable not understood"
		}
		_, f2, ok := structAt(ld2)
		if !ok || f2[varIdx] != ssa.Value(vn.Params[0]) {
			return Undecided, "normal form of a variable is not a literal over that variable"
		}
		if sv2, has := f2[signIdx]; has {
			if k2, isK := sv2.(*ssa.Const); !isK || k2.Value == nil || k2.Value.Kind() != constant.Bool {
				return Undecided, "sign of a variable's normal form is not a boolean literal"
			}
		}
	}
	return Discharged, "returns the variable's literal with the sign set"
}
