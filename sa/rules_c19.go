package main

import (
	"fmt"
	"go/constant"
	"go/token"
	"go/types"
	"sort"
	"strings"

	"golang.org/x/tools/go/ssa"
)

func init() {
	register(&property{
		ID: "C19",
		Explanation: "the glue tables of main.go: (R19.1) file suffix -> parser and result printer; (R19.2) solver status -> answer line in each result printer, `o`/`v` lines only under status Sat; (R19.3) every `err != nil` edge reaches os.Exit with a non-zero constant (directly or by returning the error to a caller that does) without printing an answer line; " +
			"(R19.4) nothing but scalars, strings and values with a String/Error method is printed on standard output; (R19.5) every result channel handed to a `go` producer is ranged over until it is closed on every path to a return.",
		NotDecided: "truthfulness of what is printed (models, costs, counts); flag handling; the order of output lines.",
		Rules:      []ruleFn{ruleR19_1, ruleR19_2, ruleR19_3, ruleR19_4, ruleR19_5, ruleR19_6, ruleR19_7, ruleR19_8, ruleR19_9, ruleR19_10, ruleR19_11},
	})
}

func (w *World) mainFns() []*ssa.Function {
	var out []*ssa.Function
	for _, f := range w.Fns {
		if w.PkgName(f) == "main" {
			out = append(out, f)
		}
	}
	return out
}

// libType resolves a named type of a library package as package main sees it (with test variants loaded, the
// packages main imports are not the ones World.ByName holds).
func (w *World) libType(pkg, name string) *types.Named {
	if m := w.ByName["main"]; m != nil && m.Types != nil {
		for _, imp := range m.Types.Imports() {
			if imp.Path() == modPath+"/"+pkg {
				if obj := imp.Scope().Lookup(name); obj != nil {
					n, _ := obj.Type().(*types.Named)
					return n
				}
			}
		}
	}
	return w.NamedType(pkg, name)
}

// libFuncName names a function of a library package of the module ("solver.ParseCNF"), "" for anything else.
func libFuncName(f *ssa.Function) string {
	if f == nil {
		return ""
	}
	obj, _ := f.Object().(*types.Func)
	if obj == nil || obj.Pkg() == nil || !strings.HasPrefix(obj.Pkg().Path(), modPath+"/") {
		return ""
	}
	if sig, ok := obj.Type().(*types.Signature); ok && sig.Recv() != nil {
		return ""
	}
	return obj.Pkg().Name() + "." + obj.Name()
}

func isStdoutSink(v ssa.Value) bool {
	if v == stdoutSink {
		return true
	}
	g, ok := v.(*ssa.Global)
	return ok && g.Name() == "Stdout" && g.Pkg != nil && g.Pkg.Pkg.Path() == "os"
}

// stdoutPrints lists the writes to standard output of fn in block order.
func (t *textCtx) stdoutPrints(fn *ssa.Function) []*emission {
	var out []*emission
	allInstrs(fn, func(ins ssa.Instruction) {
		if e := t.emissionOf(ins); e != nil && isStdoutSink(e.Sink) {
			out = append(out, e)
		}
	})
	return out
}

// answerKind classifies the text of a print: "s", "o", "v" when it starts an answer line, "?" when its beginning is
// not known statically, "" otherwise.
func answerKind(alts []string) string {
	kind := ""
	for _, a := range alts {
		k := ""
		switch {
		case strings.HasPrefix(a, "s "), strings.HasPrefix(a, "o "), strings.HasPrefix(a, "v "):
			k = a[:1]
		case a == "s\n" || a == "o\n" || a == "v\n":
			k = a[:1]
		case len(a) > 0 && (a[0] == mStr || a[0] == mAny):
			k = "?"
		}
		if k != "" && (kind == "" || k == "?") {
			kind = k
		}
	}
	return kind
}

func callText(fn *ssa.Function, ins ssa.Instruction) string {
	if ce := callExprAt(fn, ins.Pos()); ce != nil {
		s := types.ExprString(ce)
		if len(s) > 70 {
			s = s[:67] + "..."
		}
		return s
	}
	if c, ok := ins.(ssa.CallInstruction); ok {
		if f := c.Common().StaticCallee(); f != nil {
			return f.Name() + "(...)"
		}
	}
	return "call"
}

// resultChanType: chan of the named struct solver.Result.
func (w *World) isResultChan(t types.Type) bool {
	ch, ok := t.Underlying().(*types.Chan)
	if !ok {
		return false
	}
	res := w.libType("solver", "Result")
	return res != nil && types.Identical(ch.Elem(), res)
}

// resultPrinters are the functions of package main taking a chan solver.Result.
func (w *World) resultPrinters() []*ssa.Function {
	var out []*ssa.Function
	for _, fn := range w.mainFns() {
		if fn.Parent() != nil {
			continue
		}
		for _, p := range fn.Params {
			if w.isResultChan(p.Type()) {
				out = append(out, fn)
				break
			}
		}
	}
	return out
}

// printerRole: "decision" / "optimisation" by the answer line printed for a satisfiable problem.
func (t *textCtx) printerRole(fn *ssa.Function) string {
	dec, opt := false, false
	for _, e := range t.stdoutPrints(fn) {
		for _, a := range e.Text {
			if strings.HasPrefix(a, "s SATISFIABLE") {
				dec = true
			}
			if strings.HasPrefix(a, "s OPTIMUM FOUND") {
				opt = true
			}
		}
	}
	switch {
	case dec && !opt:
		return "decision printer"
	case opt && !dec:
		return "optimisation printer"
	}
	return "result printer of unknown kind"
}

// ---------- R19.1 dispatch ----------

type suffixTest struct {
	Fn     *ssa.Function
	If     *ssa.If
	Suffix string
	Region *ssa.BasicBlock // entered exactly when the path has the suffix
}

func suffixTests(w *World, fn *ssa.Function) (tests []suffixTest, problems []string) {
	allInstrs(fn, func(ins ssa.Instruction) {
		iff, ok := ins.(*ssa.If)
		if !ok {
			return
		}
		cond, positive := iff.Cond, true
		for {
			if u, ok := cond.(*ssa.UnOp); ok && u.Op == token.NOT {
				cond, positive = u.X, !positive
				continue
			}
			break
		}
		suffix := ""
		switch x := cond.(type) {
		case *ssa.Call:
			if pkg, name := stdCallee(&x.Call); pkg == "strings" && name == "HasSuffix" && len(x.Call.Args) == 2 {
				if s, ok := constString(x.Call.Args[1]); ok {
					suffix = s
				} else {
					problems = append(problems, w.InstrPos(ins)+": strings.HasSuffix with a suffix that is not a constant")
				}
			}
		case *ssa.BinOp:
			if x.Op != token.EQL && x.Op != token.NEQ {
				return
			}
			for _, pair := range [][2]ssa.Value{{x.X, x.Y}, {x.Y, x.X}} {
				c, ok := pair[0].(*ssa.Call)
				if !ok {
					continue
				}
				if pkg, name := stdCallee(&c.Call); (pkg == "path/filepath" || pkg == "path") && name == "Ext" {
					if s, ok := constString(pair[1]); ok {
						suffix = s
						if x.Op == token.NEQ {
							positive = !positive
						}
					}
				}
			}
		}
		if suffix == "" {
			return
		}
		b := iff.Block()
		region := b.Succs[0]
		if !positive {
			region = b.Succs[1]
		}
		if len(region.Preds) != 1 {
			problems = append(problems, fmt.Sprintf("%s: the code run for suffix %q is shared with other cases", w.InstrPos(ins), suffix))
			return
		}
		tests = append(tests, suffixTest{fn, iff, suffix, region})
	})
	return tests, problems
}

func isReaderType(t types.Type) bool {
	it, ok := t.Underlying().(*types.Interface)
	if !ok {
		return false
	}
	for i := 0; i < it.NumMethods(); i++ {
		if it.Method(i).Name() == "Read" {
			return true
		}
	}
	return false
}

func ruleR19_1(w *World, r *Report) {
	const id = "R19.1"
	r.Rule(id, "dispatch on the file suffix: .cnf -> solver.ParseCNF + decision printer, .opb -> solver.ParseOPB + optimisation printer, .wcnf -> maxsat.ParseWCNF + optimisation printer, .bf -> bf.Parse + formula solver", 4)
	t := newTextCtx(w)
	// candidates
	isParser := func(fn *ssa.Function) bool {
		if libFuncName(fn) == "" || !fn.Object().Exported() {
			return false
		}
		ps := fn.Signature.Params()
		for i := 0; i < ps.Len(); i++ {
			if isReaderType(ps.At(i).Type()) {
				return true
			}
		}
		return false
	}
	roles := map[*ssa.Function]string{}
	for _, fn := range w.resultPrinters() {
		roles[fn] = t.printerRole(fn)
	}
	if form := w.libType("bf", "Formula"); form != nil {
		for _, fn := range w.mainFns() {
			if fn.Parent() != nil {
				continue
			}
			for _, p := range fn.Params {
				if types.Identical(p.Type(), form) {
					roles[fn] = "formula solver"
				}
			}
		}
	}
	var tests []suffixTest
	hasTests := map[*ssa.Function]bool{}
	for _, fn := range w.mainFns() {
		ts, problems := suffixTests(w, fn)
		for _, p := range problems {
			r.Unk(id, "suffix test in "+w.FuncName(fn), w.Pos(fn.Pos()), p)
		}
		if len(ts) > 0 {
			hasTests[fn] = true
		}
		tests = append(tests, ts...)
	}
	// references made by a region: call targets and function values, through functions of package main that do not
	// dispatch on a suffix themselves
	type row struct {
		parsers, printers map[string]bool
		pos               string
		sites             []string
	}
	rows := map[string]*row{}
	for _, ts := range tests {
		rw := rows[ts.Suffix]
		if rw == nil {
			rw = &row{parsers: map[string]bool{}, printers: map[string]bool{}, pos: w.InstrPos(ts.If)}
			rows[ts.Suffix] = rw
		}
		rw.sites = append(rw.sites, w.FuncName(ts.Fn))
		seenFn := map[*ssa.Function]bool{}
		var visitFn func(fn *ssa.Function)
		visitInstr := func(ins ssa.Instruction) {
			var refs []*ssa.Function
			if ci, ok := ins.(ssa.CallInstruction); ok {
				refs = append(refs, w.Callees[ci]...)
				if f := ci.Common().StaticCallee(); f != nil {
					refs = append(refs, w.unwrap(f))
				}
			}
			for _, op := range ins.Operands(nil) {
				if op == nil || *op == nil {
					continue
				}
				if f, ok := (*op).(*ssa.Function); ok {
					refs = append(refs, w.unwrap(f))
				}
			}
			if mc, ok := ins.(*ssa.MakeClosure); ok {
				if f, ok := mc.Fn.(*ssa.Function); ok {
					refs = append(refs, f)
				}
			}
			for _, f := range refs {
				if isParser(f) {
					rw.parsers[libFuncName(f)] = true
				}
				if role, ok := roles[f]; ok {
					rw.printers[role] = true
				}
				// the formula solver of the library called in place (the printing helper was inlined)
				if w.PkgName(f) == "bf" && f.Signature.Recv() == nil && f.Signature.Params().Len() == 1 && typeShort(f.Signature.Params().At(0).Type()) == "bf.Formula" &&
					f.Signature.Results().Len() == 1 && typeShort(f.Signature.Results().At(0).Type()) == "map[string]bool" {
					rw.printers["formula solver"] = true
				}
				if w.PkgName(f) == "main" && !hasTests[f] {
					visitFn(f)
				}
			}
		}
		visitFn = func(fn *ssa.Function) {
			if seenFn[fn] {
				return
			}
			seenFn[fn] = true
			allInstrs(fn, visitInstr)
		}
		for _, b := range ts.Fn.Blocks {
			if ts.Region.Dominates(b) {
				for _, ins := range b.Instrs {
					visitInstr(ins)
				}
			}
		}
	}
	want := map[string][2]string{
		".cnf":  {"solver.ParseCNF", "decision printer"},
		".opb":  {"solver.ParseOPB", "optimisation printer"},
		".wcnf": {"maxsat.ParseWCNF", "optimisation printer"},
		".bf":   {"bf.Parse", "formula solver"},
	}
	var sufs []string
	for s := range want {
		sufs = append(sufs, s)
	}
	for s := range rows {
		if _, ok := want[s]; !ok {
			sufs = append(sufs, s)
		}
	}
	sort.Strings(sufs)
	for _, s := range sufs {
		key := "suffix " + s
		rw := rows[s]
		exp, known := want[s]
		if rw == nil {
			r.Unk(id, key, "-", "no test of this suffix (strings.HasSuffix or filepath.Ext comparison) found in package main")
			continue
		}
		got := fmt.Sprintf("parser {%s}, printer {%s} (tested in %s)", joinSorted(rw.parsers), joinSorted(rw.printers), strings.Join(rw.sites, ", "))
		if !known {
			r.OK(id, key, rw.pos, "suffix outside the property's table: "+got)
			continue
		}
		if joinSorted(rw.parsers) == exp[0] && joinSorted(rw.printers) == exp[1] {
			r.OK(id, key, rw.pos, got)
		} else {
			r.Bad(id, key, rw.pos, fmt.Sprintf("expected parser {%s}, printer {%s}; found %s", exp[0], exp[1], got))
		}
	}
}

// ---------- R19.2 printer case tables ----------

type statusDomain struct {
	T     *types.Named
	Names map[int64]string
	All   uint8
	Bit   map[int64]uint8
}

func (w *World) statusDomain() *statusDomain {
	T := w.libType("solver", "Status")
	if T == nil || T.Obj() == nil || T.Obj().Pkg() == nil {
		return nil
	}
	d := &statusDomain{T: T, Names: map[int64]string{}, Bit: map[int64]uint8{}}
	sc := T.Obj().Pkg().Scope()
	for _, n := range sc.Names() {
		c, ok := sc.Lookup(n).(*types.Const)
		if !ok || !types.Identical(c.Type(), T) {
			continue
		}
		if v, ok := constant.Int64Val(c.Val()); ok && len(d.Bit) < 8 {
			if _, dup := d.Bit[v]; !dup {
				d.Bit[v] = 1 << uint(len(d.Bit))
				d.Names[v] = n
				d.All |= d.Bit[v]
			}
		}
	}
	if len(d.Bit) == 0 {
		return nil
	}
	return d
}

func (d *statusDomain) show(set uint8) string {
	var out []string
	for v, b := range d.Bit {
		if set&b != 0 {
			out = append(out, d.Names[v])
		}
	}
	sort.Strings(out)
	return "{" + strings.Join(out, ", ") + "}"
}

// statusCell: the storage a status value is read from (the Result variable or value), or the value itself.
func (d *statusDomain) statusCell(v ssa.Value) (cell ssa.Value, load ssa.Instruction) {
	if !types.Identical(v.Type(), d.T) {
		return nil, nil
	}
	switch x := v.(type) {
	case *ssa.UnOp:
		if x.Op == token.MUL {
			if fa, ok := x.X.(*ssa.FieldAddr); ok {
				return fa.X, x
			}
			return x.X, x
		}
	case *ssa.Field:
		return x.X, nil
	}
	return v, nil
}

type statusFlow struct {
	d     *statusDomain
	fn    *ssa.Function
	in    map[*ssa.BasicBlock]map[ssa.Value]uint8
	cells map[ssa.Value]bool
}

// kills: does ins overwrite (part of) the cell?
func cellKill(ins ssa.Instruction, cell ssa.Value) bool {
	switch x := ins.(type) {
	case *ssa.Store:
		if x.Addr == cell {
			return true
		}
		if fa, ok := x.Addr.(*ssa.FieldAddr); ok && fa.X == cell {
			return true
		}
	case ssa.CallInstruction:
		for _, a := range x.Common().Args {
			if a == cell {
				return true
			}
			if fa, ok := a.(*ssa.FieldAddr); ok && fa.X == cell {
				return true
			}
		}
	}
	return false
}

// refine interprets a branch on `status == K` / `status != K`.
func (sf *statusFlow) refine(iff *ssa.If) (cell ssa.Value, onTrue, onFalse uint8, ok bool) {
	cond, neg := iff.Cond, false
	for {
		if u, isU := cond.(*ssa.UnOp); isU && u.Op == token.NOT {
			cond, neg = u.X, !neg
			continue
		}
		break
	}
	bo, isB := cond.(*ssa.BinOp)
	if !isB || (bo.Op != token.EQL && bo.Op != token.NEQ) {
		return
	}
	var v ssa.Value
	var k *ssa.Const
	if c, isC := bo.Y.(*ssa.Const); isC {
		v, k = bo.X, c
	} else if c, isC := bo.X.(*ssa.Const); isC {
		v, k = bo.Y, c
	} else {
		return
	}
	cell, load := sf.d.statusCell(v)
	if cell == nil {
		return
	}
	kv, isInt := constInt(k)
	if !isInt {
		return
	}
	bit := sf.d.Bit[kv] // 0 when the constant is not a declared status: the test never holds for declared ones
	// the value compared must still be the content of the cell at the branch
	if load != nil {
		if load.Block() == iff.Block() {
			b := load.Block()
			for i := indexOfInstr(b, load) + 1; i < len(b.Instrs); i++ {
				if cellKill(b.Instrs[i], cell) {
					return nil, 0, 0, false
				}
			}
		} else {
			stale := false
			allInstrs(sf.fn, func(ins ssa.Instruction) {
				if cellKill(ins, cell) && instrReachableFrom(load, ins) && instrReachableFrom(ins, iff) {
					stale = true
				}
			})
			if stale {
				return nil, 0, 0, false
			}
		}
	}
	eq := bo.Op == token.EQL
	if neg {
		eq = !eq
	}
	if eq {
		return cell, bit, sf.d.All &^ bit, true
	}
	return cell, sf.d.All &^ bit, bit, true
}

func (sf *statusFlow) transfer(st map[ssa.Value]uint8, ins ssa.Instruction) {
	for c := range st {
		if cellKill(ins, c) {
			delete(st, c)
		}
	}
}

func (sf *statusFlow) run() {
	fn := sf.fn
	sf.in = map[*ssa.BasicBlock]map[ssa.Value]uint8{fn.Blocks[0]: {}}
	sf.cells = map[ssa.Value]bool{}
	work := []*ssa.BasicBlock{fn.Blocks[0]}
	for n := 0; len(work) > 0 && n < 100000; n++ {
		b := work[len(work)-1]
		work = work[:len(work)-1]
		st := map[ssa.Value]uint8{}
		for c, s := range sf.in[b] {
			st[c] = s
		}
		for _, ins := range b.Instrs {
			sf.transfer(st, ins)
		}
		for i, sc := range b.Succs {
			out := map[ssa.Value]uint8{}
			for c, s := range st {
				out[c] = s
			}
			if iff, ok := b.Instrs[len(b.Instrs)-1].(*ssa.If); ok && len(b.Succs) == 2 && b.Succs[0] != b.Succs[1] {
				if cell, onT, onF, ok := sf.refine(iff); ok {
					sf.cells[cell] = true
					cur, has := out[cell]
					if !has {
						cur = sf.d.All
					}
					if i == 0 {
						cur &= onT
					} else {
						cur &= onF
					}
					out[cell] = cur
				}
			}
			old, visited := sf.in[sc]
			if !visited {
				sf.in[sc] = out
				work = append(work, sc)
				continue
			}
			// join: union per cell; a cell absent on one side is unconstrained
			changed := false
			for c, s := range old {
				o, has := out[c]
				if !has {
					delete(old, c)
					changed = true
				} else if s|o != s {
					old[c] = s | o
					changed = true
				}
			}
			if changed {
				work = append(work, sc)
			}
		}
	}
}

// at returns the statuses possible when ins executes, for the given cell.
func (sf *statusFlow) at(ins ssa.Instruction, cell ssa.Value) uint8 {
	b := ins.Block()
	in, ok := sf.in[b]
	if !ok {
		return 0 // unreachable
	}
	st := map[ssa.Value]uint8{}
	for c, s := range in {
		st[c] = s
	}
	for _, i2 := range b.Instrs {
		if i2 == ins {
			break
		}
		sf.transfer(st, i2)
	}
	if s, ok := st[cell]; ok {
		return s
	}
	return sf.d.All
}

func ruleR19_2(w *World, r *Report) {
	const id = "R19.2"
	r.Rule(id, "in each result printer the answer line is `s UNSATISFIABLE` for status Unsat, `s SATISFIABLE` or `s OPTIMUM FOUND` for Sat and `s UNKNOWN` otherwise; `o` and `v` lines are printed only when the status is Sat", 14)
	d := w.statusDomain()
	printers := w.resultPrinters()
	if d == nil || len(printers) == 0 {
		r.Unk(id, "result printers", "-", "solver.Status or the functions of package main taking a chan solver.Result were not found")
		return
	}
	var satV, unsatV int64 = -1, -1
	for v, n := range d.Names {
		switch n {
		case "Sat":
			satV = v
		case "Unsat":
			unsatV = v
		}
	}
	if satV < 0 || unsatV < 0 {
		r.Unk(id, "solver.Status", "-", "constants Sat / Unsat not found")
		return
	}
	t := newTextCtx(w)
	for _, fn := range printers {
		name := w.FuncName(fn)
		sf := &statusFlow{d: d, fn: fn}
		sf.run()
		if len(sf.cells) != 1 {
			r.Unk(id, name+": status tested", w.Pos(fn.Pos()), fmt.Sprintf("the printer branches on %d different status variables; exactly one is expected", len(sf.cells)))
			continue
		}
		var cell ssa.Value
		for c := range sf.cells {
			cell = c
		}
		type line struct {
			text string
			set  uint8
			e    *emission
		}
		var sLines, oLines, vLines []line
		for _, e := range t.stdoutPrints(fn) {
			kind := answerKind(e.Text)
			set := sf.at(e.Instr, cell)
			switch kind {
			case "?":
				r.Unk(id, name+": "+callText(fn, e.Instr), w.InstrPos(e.Instr), "the beginning of the printed text is not known statically: it may start an answer line")
			case "s":
				for _, a := range e.Text {
					sLines = append(sLines, line{strings.TrimRight(a, " \n"), set, e})
				}
			case "o":
				oLines = append(oLines, line{e.Text[0], set, e})
			case "v":
				vLines = append(vLines, line{e.Text[0], set, e})
			}
		}
		var vals []int64
		for v := range d.Names {
			vals = append(vals, v)
		}
		sort.Slice(vals, func(i, j int) bool { return vals[i] < vals[j] })
		for _, v := range vals {
			key := fmt.Sprintf("%s: answer line for status %s", name, d.Names[v])
			var allowed []string
			switch v {
			case unsatV:
				allowed = []string{"s UNSATISFIABLE"}
			case satV:
				allowed = []string{"s SATISFIABLE", "s OPTIMUM FOUND"}
			default:
				allowed = []string{"s UNKNOWN"}
			}
			texts := map[string]bool{}
			pos := w.Pos(fn.Pos())
			for _, l := range sLines {
				if l.set&d.Bit[v] != 0 {
					texts[l.text] = true
					pos = w.InstrPos(l.e.Instr)
				}
			}
			got := joinSorted(texts)
			ok := len(texts) == 1
			if ok {
				ok = false
				for _, a := range allowed {
					if texts[a] {
						ok = true
					}
				}
			}
			r.Check(ok, id, key, pos, "prints "+got, fmt.Sprintf("prints {%s}; expected exactly one of {%s}", got, strings.Join(allowed, ", ")))
		}
		for _, grp := range []struct {
			what  string
			lines []line
		}{{"o", oLines}, {"v", vLines}} {
			key := fmt.Sprintf("%s: `%s` lines only when the status is Sat", name, grp.what)
			bad := ""
			pos := w.Pos(fn.Pos())
			for _, l := range grp.lines {
				if l.set != d.Bit[satV] {
					bad += fmt.Sprintf(" %s printed when the status is in %s;", showAlt(l.text), d.show(l.set))
					pos = w.InstrPos(l.e.Instr)
				}
			}
			if bad != "" {
				r.Bad(id, key, pos, strings.TrimSpace(bad))
			} else {
				r.OK(id, key, pos, fmt.Sprintf("%d such print(s), all under status Sat", len(grp.lines)))
			}
		}
	}
}

// ---------- R19.3 error exits ----------

var errorType = types.Universe.Lookup("error").Type()

func isErrorType(t types.Type) bool {
	n, ok := t.(*types.Named)
	return ok && n.Obj() != nil && n.Obj().Pkg() == nil && n.Obj().Name() == "error"
}

type errExit struct {
	w     *World
	t     *textCtx
	memo  map[*ssa.Function]string // "" = every non-nil error returned by fn leads to a failing exit in all callers
	busy  map[*ssa.Function]bool
	fails map[*ssa.Function]bool
}

// followError explores every path from block b (entered because an error is non-nil) and returns the first problem
// found, or "" when every path ends in os.Exit(c) with c != 0, a panic, or a return of a non-nil error that every
// caller handles in the same way.
func (x *errExit) followError(fn *ssa.Function, start *ssa.BasicBlock) string {
	seen := map[*ssa.BasicBlock]bool{}
	var walk func(b *ssa.BasicBlock) string
	walk = func(b *ssa.BasicBlock) string {
		if seen[b] {
			return ""
		}
		seen[b] = true
		for _, ins := range b.Instrs {
			if e := x.t.emissionOf(ins); e != nil && isStdoutSink(e.Sink) {
				switch answerKind(e.Text) {
				case "s", "o", "v":
					return fmt.Sprintf("an answer line %s is printed at %s after the error", showAlts(e.Text), x.w.InstrPos(ins))
				case "?":
					return fmt.Sprintf("text whose beginning is not known statically is printed on standard output at %s after the error", x.w.InstrPos(ins))
				}
			}
			switch y := ins.(type) {
			case *ssa.Call:
				if pkg, name := stdCallee(&y.Call); pkg == "os" && name == "Exit" && len(y.Call.Args) == 1 {
					c, ok := constInt(y.Call.Args[0])
					if !ok {
						return "os.Exit is called with a status that is not a constant at " + x.w.InstrPos(ins)
					}
					if c == 0 {
						return "os.Exit(0) at " + x.w.InstrPos(ins) + ": the failure is reported as success"
					}
					return "" // the process ends here
				}
				if pkg, name := stdCallee(&y.Call); pkg == "log" && (strings.HasPrefix(name, "Fatal") || strings.HasPrefix(name, "Panic")) {
					return ""
				}
				if callee := y.Call.StaticCallee(); callee != nil && x.w.PkgName(x.w.unwrap(callee)) == "main" && x.alwaysFails(x.w.unwrap(callee)) {
					return "" // a helper that reports and exits
				}
			case *ssa.Panic:
				return ""
			case *ssa.Return:
				if fn.Name() == "main" && x.w.PkgName(fn) == "main" && fn.Parent() == nil {
					return "main returns normally (exit status 0) at " + x.w.InstrPos(ins)
				}
				var errRes ssa.Value
				for _, res := range y.Results {
					if isErrorType(res.Type()) {
						errRes = res
					}
				}
				if errRes == nil {
					return fmt.Sprintf("%s returns at %s without reporting the error to its caller", x.w.FuncName(fn), x.w.InstrPos(ins))
				}
				if mayBeNilResult(y, errRes) {
					return fmt.Sprintf("%s returns a nil error at %s", x.w.FuncName(fn), x.w.InstrPos(ins))
				}
				return x.callersHandle(fn)
			}
		}
		for _, sc := range b.Succs {
			if p := walk(sc); p != "" {
				return p
			}
		}
		return ""
	}
	return walk(start)
}

// alwaysFails: fn never returns: every path ends in os.Exit(c != 0), a panic or log.Fatal, and prints no answer line.
func (x *errExit) alwaysFails(fn *ssa.Function) bool {
	if v, ok := x.fails[fn]; ok {
		return v
	}
	if x.fails == nil {
		x.fails = map[*ssa.Function]bool{}
	}
	x.fails[fn] = false // recursion: assume it may return
	if len(fn.Blocks) == 0 {
		return false
	}
	seen := map[*ssa.BasicBlock]bool{}
	var walk func(b *ssa.BasicBlock) bool
	walk = func(b *ssa.BasicBlock) bool {
		if seen[b] {
			return true
		}
		seen[b] = true
		for _, ins := range b.Instrs {
			if e := x.t.emissionOf(ins); e != nil && isStdoutSink(e.Sink) && answerKind(e.Text) != "" {
				return false
			}
			switch y := ins.(type) {
			case *ssa.Call:
				pkg, name := stdCallee(&y.Call)
				if pkg == "os" && name == "Exit" && len(y.Call.Args) == 1 {
					c, ok := constInt(y.Call.Args[0])
					return ok && c != 0
				}
				if pkg == "log" && (strings.HasPrefix(name, "Fatal") || strings.HasPrefix(name, "Panic")) {
					return true
				}
				if callee := y.Call.StaticCallee(); callee != nil && x.w.PkgName(x.w.unwrap(callee)) == "main" && x.alwaysFails(x.w.unwrap(callee)) {
					return true
				}
			case *ssa.Panic:
				return true
			case *ssa.Return:
				return false
			}
		}
		for _, sc := range b.Succs {
			if !walk(sc) {
				return false
			}
		}
		return true
	}
	res := walk(fn.Blocks[0])
	x.fails[fn] = res
	return res
}

// mayBeNilResult: can the result v of the return be the nil constant? With deferred calls go/ssa routes results
// through a cell (`*r = v; rundefers; return *r`): the stores reaching the load are examined.
func mayBeNilResult(ret *ssa.Return, v ssa.Value) bool {
	if isNilConst(v) {
		return true
	}
	if u, ok := v.(*ssa.UnOp); ok && u.Op == token.MUL {
		if al, ok := u.X.(*ssa.Alloc); ok {
			// a named error result returned on the edge where it was just found non-nil (`if _, err = f(); err != nil
			// { return err }`, with a deferred function that wraps a non-nil error): not nil
			for _, ec := range dominatingConds(ret.Block()) {
				bo, isB := ec.Cond.(*ssa.BinOp)
				if !isB || !isNilConst(bo.Y) || (bo.Op == token.NEQ) != ec.True || (bo.Op != token.NEQ && bo.Op != token.EQL) {
					continue
				}
				if ld, isLd := bo.X.(*ssa.UnOp); isLd && ld.Op == token.MUL && ld.X == ssa.Value(al) {
					// nothing between the test and the return assigns the cell another value than itself
					clean := true
					for _, ins := range ret.Block().Instrs {
						if st, isSt := ins.(*ssa.Store); isSt && st.Addr == ssa.Value(al) {
							if l2, isL2 := st.Val.(*ssa.UnOp); !isL2 || l2.Op != token.MUL || l2.X != ssa.Value(al) {
								clean = false
							}
						}
					}
					if clean && len(ret.Block().Preds) == 1 && ret.Block().Preds[0] == ec.If.Block() {
						return false
					}
				}
			}
			stores, zero := reachingStores(u, al, -1)
			if zero {
				return true
			}
			for _, st := range stores {
				if isNilConst(st.Val) {
					return true
				}
			}
		}
	}
	return false
}

// errorEdges returns, for an error value, the blocks entered when it is non-nil.
func errorEdges(v ssa.Value) (ifs []*ssa.If, regions []*ssa.BasicBlock) {
	if v.Referrers() == nil {
		return
	}
	for _, ref := range *v.Referrers() {
		bo, ok := ref.(*ssa.BinOp)
		if !ok || (bo.Op != token.NEQ && bo.Op != token.EQL) {
			continue
		}
		if !(isNilConst(bo.X) || isNilConst(bo.Y)) {
			continue
		}
		for _, r2 := range *bo.Referrers() {
			if iff, ok := r2.(*ssa.If); ok && iff.Cond == bo {
				region := iff.Block().Succs[0]
				if bo.Op == token.EQL {
					region = iff.Block().Succs[1]
				}
				ifs = append(ifs, iff)
				regions = append(regions, region)
			}
		}
	}
	return
}

// callersHandle: every call of fn in the module tests the returned error and fails on the non-nil edge.
func (x *errExit) callersHandle(fn *ssa.Function) string {
	if p, ok := x.memo[fn]; ok {
		return p
	}
	if x.busy[fn] {
		return ""
	}
	x.busy[fn] = true
	defer delete(x.busy, fn)
	res := ""
	sites := x.w.Callers[fn]
	if len(sites) == 0 {
		res = x.w.FuncName(fn) + " returns the error but has no caller"
	}
	for _, site := range sites {
		caller := site.Parent()
		val := site.Value()
		if val == nil {
			res = fmt.Sprintf("%s is started with go/defer at %s: its error is lost", x.w.FuncName(fn), x.w.InstrPos(site))
			break
		}
		var errVals []ssa.Value
		if isErrorType(val.Type()) {
			errVals = append(errVals, val)
		} else if tup, ok := val.Type().(*types.Tuple); ok {
			for _, ref := range *val.Referrers() {
				if ex, ok := ref.(*ssa.Extract); ok && ex.Index < tup.Len() && isErrorType(tup.At(ex.Index).Type()) {
					errVals = append(errVals, ex)
				}
			}
		}
		handled := false
		for _, ev := range errVals {
			_, regions := errorEdges(ev)
			for _, reg := range regions {
				handled = true
				if p := x.followError(caller, reg); p != "" {
					res = fmt.Sprintf("error returned to %s: %s", x.w.FuncName(caller), p)
				}
			}
		}
		if !handled {
			res = fmt.Sprintf("%s ignores the error returned by %s at %s", x.w.FuncName(caller), x.w.FuncName(fn), x.w.InstrPos(site))
		}
		if res != "" {
			break
		}
	}
	x.memo[fn] = res
	return res
}

// errorSource names where an error value comes from.
func errorSource(w *World, v ssa.Value) string {
	switch x := v.(type) {
	case *ssa.Extract:
		if c, ok := x.Tuple.(*ssa.Call); ok {
			return w.calleeOrValue(c)
		}
	case *ssa.Call:
		return w.calleeOrValue(x)
	case *ssa.Phi:
		return "variable " + x.Comment
	case *ssa.UnOp:
		if al, ok := x.X.(*ssa.Alloc); ok && x.Op == token.MUL {
			if stores, zero := reachingStores(x, al, -1); len(stores) == 1 && !zero {
				if _, again := stores[0].Val.(*ssa.UnOp); !again {
					return errorSource(w, stores[0].Val)
				}
			}
			return "variable " + al.Comment
		}
	}
	return "value"
}

func (w *World) calleeOrValue(c *ssa.Call) string {
	if n := w.calleeName(&c.Call); n != "" {
		return n
	}
	return "dynamic call"
}

func ruleR19_3(w *World, r *Report) {
	const id = "R19.3"
	r.Rule(id, "every `err != nil` edge in package main reaches os.Exit with a non-zero constant, directly or by returning the error to callers that do, and prints no line starting with `s `, `v ` or `o ` on the way", 14)
	x := &errExit{w: w, t: newTextCtx(w), memo: map[*ssa.Function]string{}, busy: map[*ssa.Function]bool{}}
	keys := keyer{}
	for _, fn := range w.mainFns() {
		seenIf := map[*ssa.If]bool{}
		allInstrs(fn, func(ins ssa.Instruction) {
			v, ok := ins.(ssa.Value)
			if !ok {
				return
			}
			if !isErrorType(v.Type()) {
				return
			}
			ifs, regions := errorEdges(v)
			for i, iff := range ifs {
				if seenIf[iff] {
					continue
				}
				seenIf[iff] = true
				key := keys.uniq(fmt.Sprintf("%s: error of %s", w.FuncName(fn), errorSource(w, v)))
				p := x.followError(fn, regions[i])
				r.Check(p == "", id, key, w.InstrPos(iff), "every path ends in a failing exit and prints no answer line", p)
			}
		})
	}
}

// ---------- R19.4 no composite value on standard output ----------

func printableType(t types.Type) (ok bool, dynamic bool, why string) {
	if hasTextMethod(t) {
		return true, false, "has a String/Error method"
	}
	switch u := t.Underlying().(type) {
	case *types.Basic:
		return true, false, "basic type"
	case *types.Interface:
		if isErrorType(t) {
			return true, false, "error"
		}
		_ = u
		return false, true, "interface value: the dynamic type is not known"
	}
	return false, false, "composite type " + typeShort(t) + " printed with default formatting"
}

func ruleR19_4(w *World, r *Report) {
	const id = "R19.4"
	r.Rule(id, "every value package main prints on standard output is a scalar, a string or has a String/Error method: no struct, pointer, slice or map is dumped with default formatting", 18)
	t := newTextCtx(w)
	keys := keyer{}
	for _, fn := range w.mainFns() {
		for _, e := range t.stdoutPrints(fn) {
			call, ok := e.Instr.(*ssa.Call)
			if !ok {
				continue
			}
			key := keys.uniq(w.FuncName(fn) + ": " + callText(fn, call))
			pos := w.InstrPos(call)
			_, name := stdCallee(&call.Call)
			ops := call.Call.Args
			if strings.HasPrefix(name, "Fprint") {
				ops = ops[1:]
			}
			var verbs []fmtPiece
			hasFormat := strings.HasSuffix(name, "f")
			if hasFormat {
				f, ok := constString(ops[0])
				if !ok {
					r.Unk(id, key, pos, "format string is not a constant")
					continue
				}
				for _, p := range parseFormat(f) {
					if p.verb != 0 {
						verbs = append(verbs, p)
					}
				}
				ops = ops[1:]
			}
			if len(ops) != 1 {
				r.Unk(id, key, pos, "unexpected shape of a fmt call")
				continue
			}
			args, ok := fmtVarargs(ops[0])
			if !ok {
				r.Unk(id, key, pos, "the arguments are passed as a slice that is not built at the call")
				continue
			}
			bad, unk := "", ""
			for i, a := range args {
				if hasFormat && i < len(verbs) && (verbs[i].verb == 'T' || verbs[i].verb == 'p') {
					continue
				}
				ok, dyn, why := printableType(a.Type())
				if ok {
					continue
				}
				if dyn {
					unk += fmt.Sprintf(" argument %d: %s;", i+1, why)
				} else {
					bad += fmt.Sprintf(" argument %d: %s;", i+1, why)
				}
			}
			switch {
			case bad != "":
				r.Bad(id, key, pos, strings.TrimSpace(bad))
			case unk != "":
				r.Unk(id, key, pos, strings.TrimSpace(unk))
			default:
				r.OK(id, key, pos, fmt.Sprintf("%d argument(s), all scalars, strings or Stringers", len(args)))
			}
		}
	}
}

// ---------- R19.5 result channels are drained ----------

// drainsParam: every return of fn is dominated by the exhaustion edge of a `for range` over the channel parameter.
func drainsParam(w *World, fn *ssa.Function, p *ssa.Parameter) (bool, string) {
	isCh, _ := chanAliases(fn, p)
	sites := drainSites(fn, isCh)
	if len(sites) == 0 {
		return false, "no `for range` (receive with ok test) over the channel parameter " + p.Name()
	}
	nret := 0
	problem := ""
	allInstrs(fn, func(ins ssa.Instruction) {
		if ret, ok := ins.(*ssa.Return); ok && ret.Block() != fn.Recover {
			nret++
			if !drainedAt(ret.Block(), sites) {
				problem = "the return at " + w.InstrPos(ret) + " can be reached without having received until the channel is closed (break, return or goto out of the loop)"
			}
		}
	})
	if problem != "" {
		return false, problem
	}
	return true, fmt.Sprintf("%d return(s), all after the channel is closed and empty", nret)
}

func ruleR19_5(w *World, r *Report) {
	const id = "R19.5"
	r.Rule(id, "every channel package main hands to a `go` producer is received from until it is closed on every path to a return, in the spawning function or in the function the channel is passed to", 5)
	keys := keyer{}
	consumers := map[*ssa.Function]*ssa.Parameter{}
	var consumerOrder []*ssa.Function
	// drained: in fn, after instruction `from`, channel ch is received from until closed before every return:
	// ranged over in place, or passed to a function that does
	drained := func(fn *ssa.Function, from ssa.Instruction, ch ssa.Value) (problem string, notes []string, nret int) {
		sites := drainSites(fn, func(v ssa.Value) bool { return v == ch })
		var calls []ssa.CallInstruction
		for _, ref := range *ch.Referrers() {
			if ci, ok := ref.(*ssa.Call); ok && instrReachableFrom(from, ci) {
				for _, a := range ci.Call.Args {
					if a == ch {
						calls = append(calls, ci)
					}
				}
			}
		}
		okCalls := map[ssa.Instruction]bool{}
		for _, ci := range calls {
			callees := w.Callees[ci]
			if len(callees) == 0 {
				continue
			}
			all := true
			for _, callee := range callees {
				p := argParam(callee, ci.Common(), ch)
				if p == nil || !w.InModule(callee) {
					all = false
					continue
				}
				if _, seen := consumers[callee]; !seen {
					consumers[callee] = p
					consumerOrder = append(consumerOrder, callee)
				}
				if ok, _ := drainsParam(w, callee, p); !ok {
					all = false
				}
			}
			if all {
				okCalls[ci] = true
				var ns []string
				for _, c := range callees {
					ns = append(ns, w.FuncName(c))
				}
				notes = append(notes, "passed to "+strings.Join(ns, " / "))
			}
		}
		if len(sites) > 0 {
			notes = append(notes, "ranged over in place")
		}
		allInstrs(fn, func(i2 ssa.Instruction) {
			ret, ok := i2.(*ssa.Return)
			if !ok || ret.Block() == fn.Recover || !instrReachableFrom(from, ret) {
				return
			}
			nret++
			if drainedAt(ret.Block(), sites) {
				return
			}
			for ci := range okCalls {
				if instrDominates(ci, ret) {
					return
				}
			}
			problem = "the return at " + w.InstrPos(ret) + " can be reached without the channel having been received from until it is closed"
		})
		if problem == "" && nret == 0 {
			problem = "no return is reachable after the go statement"
		}
		return
	}
	for _, fn := range w.mainFns() {
		allInstrs(fn, func(ins ssa.Instruction) {
			g, ok := ins.(*ssa.Go)
			if !ok {
				return
			}
			for argIdx, ch := range g.Call.Args {
				if _, isChan := ch.Type().Underlying().(*types.Chan); !isChan || isNilConst(ch) {
					continue
				}
				producer := w.calleeName(&g.Call)
				if producer == "" {
					producer = "function value"
				}
				name := "channel"
				if ce := callExprAt(fn, g.Call.Pos()); ce != nil {
					off := 0
					if !g.Call.IsInvoke() && g.Call.Signature().Recv() != nil {
						off = 1
					}
					if i := argIdx - off; i >= 0 && i < len(ce.Args) {
						name = types.ExprString(ce.Args[i])
					}
				}
				key := keys.uniq(fmt.Sprintf("%s: %s handed to go %s", w.FuncName(fn), name, producer))
				pos := w.InstrPos(g)
				// a function that starts the producer and returns the channel (`printFn(startOptimal(s.Optimal))`): the
				// obligation is that of each of its callers, for the channel the call yields
				returned := false
				allInstrs(fn, func(i2 ssa.Instruction) {
					if ret, ok := i2.(*ssa.Return); ok {
						for _, rv := range ret.Results {
							if rv == ch {
								returned = true
							}
						}
					}
				})
				if returned && fn.Signature.Results().Len() == 1 {
					callers := 0
					for _, cfn := range w.mainFns() {
						for _, ci := range callsIn(cfn) {
							c, ok := ci.(*ssa.Call)
							if !ok || !w.staticCalleeIs(c, fn) {
								continue
							}
							callers++
							k2 := keys.uniq(fmt.Sprintf("%s: channel started by %s (go %s)", w.FuncName(cfn), w.FuncName(fn), producer))
							problem, notes, nret := drained(cfn, c, c)
							r.Check(problem == "", id, k2, w.InstrPos(c), fmt.Sprintf("%s; %d return(s) after the call, all behind the drain", strings.Join(notes, "; "), nret), problem)
						}
					}
					if callers == 0 {
						r.Unk(id, key, pos, "the channel is returned by "+w.FuncName(fn)+", which no function of package main calls directly")
					}
					continue
				}
				problem, notes, nret := drained(fn, g, ch)
				r.Check(problem == "", id, key, pos, fmt.Sprintf("%s; %d return(s) after the go statement, all behind the drain", strings.Join(notes, "; "), nret), problem)
			}
		})
	}
	sort.Slice(consumerOrder, func(i, j int) bool { return consumerOrder[i].String() < consumerOrder[j].String() })
	for _, c := range consumerOrder {
		ok, detail := drainsParam(w, c, consumers[c])
		r.Check(ok, id, "consumer "+w.FuncName(c), w.Pos(c.Pos()), detail, detail)
	}
}
