package main

import (
	"fmt"
	"go/token"
	"go/types"
	"strings"

	"golang.org/x/tools/go/ssa"
)

// Rules added after the fourth round of externally written faults (C03, C07, C09, C10, C11, C17).

// ---------- R3.8: the cost weights are never replaced by nil ----------

func ruleR3_8(w *World, r *Report) {
	r.Rule("R3.8", "every store into a cost-weight field (Problem.minWeights, Solver.minWeights) stores a list that was handed in, read or built - never the nil constant in place of a list (nil means `every weight is 1`), except under a test that every weight equals 1", 2)
	n := 0
	for _, fn := range w.LibFns() {
		if w.PkgName(fn) != "solver" || len(fn.Blocks) == 0 {
			continue
		}
		k := 0
		allInstrs(fn, func(ins ssa.Instruction) {
			st, ok := ins.(*ssa.Store)
			if !ok {
				return
			}
			if _, f, _, okF := fieldOf(st.Addr); !okF || f != "minWeights" {
				return
			}
			n++
			k++
			key := fmt.Sprintf("%s store #%d into the cost weights", w.FuncName(fn), k)
			why := ""
			var walk func(v ssa.Value, from *ssa.BasicBlock, at *ssa.BasicBlock, depth int)
			walk = func(v ssa.Value, from, at *ssa.BasicBlock, depth int) {
				if depth > 4 || why != "" {
					return
				}
				switch x := v.(type) {
				case *ssa.Const:
					if x.IsNil() && !nilUnderAllOnes2(from, at) {
						why = "nil is stored in place of the weight list: every weight is then read as 1, and the cost reported (and minimised) is the number of true cost literals, not the value of the cost function"
					}
				case *ssa.Phi:
					for i, e := range x.Edges {
						walk(e, x.Block().Preds[i], x.Block(), depth+1)
					}
				}
			}
			walk(st.Val, nil, st.Block(), 0)
			r.Check(why == "", "R3.8", key, w.InstrPos(st), "a list, not nil", why)
		})
	}
	if n == 0 {
		r.Unk("R3.8", "cost weights", "-", "no store into a minWeights field found in package solver")
	}
}

// nilUnderAllOnes2: the nil arrives along the edge from -> at (a phi edge), or is stored in block at (from == nil),
// only where a flag computed from comparisons of weights with the constant 1 holds.
func nilUnderAllOnes2(from, at *ssa.BasicBlock) bool {
	if from != nil {
		return nilUnderAllOnes(from, at)
	}
	if len(at.Preds) == 1 {
		return nilUnderAllOnes(at.Preds[0], at)
	}
	return false
}

// ---------- R8.10: a unit binding has the sign of its literal ----------

func ruleR8_10(w *World, r *Report) {
	r.Rule("R8.10", "wherever package explain records a literal as true in a table of unit bindings (a store of the constant 1 or -1 into an []int element under a test of the sign of a literal), the constant is +1 on the path where the literal is positive and -1 where it is negative", 3)
	n := 0
	rup := rupTest(w) // assumes the negation of each literal of the line: there the sign is the opposite one, by design
	for _, fn := range w.LibFns() {
		if w.PkgName(fn) != "explain" || len(fn.Blocks) == 0 {
			continue
		}
		k := 0
		allInstrs(fn, func(ins ssa.Instruction) {
			st, ok := ins.(*ssa.Store)
			if !ok {
				return
			}
			ia, ok := st.Addr.(*ssa.IndexAddr)
			if !ok || typeShort(ia.X.Type()) != "[]int" {
				return
			}
			c, isK := constInt(st.Val)
			if !isK || (c != 1 && c != -1) {
				return
			}
			// the table: the units field, or a parameter handed such a table
			isTable := false
			if _, okU := isFieldLoad(ia.X, "explain.Problem", "units"); okU {
				isTable = true
			}
			if _, isP := ia.X.(*ssa.Parameter); isP {
				isTable = true
			}
			if !isTable {
				return
			}
			// the innermost dominating test of the sign of an integer
			sign := 0
			for _, ec := range dominatingConds(st.Block()) {
				bo, isB := ec.Cond.(*ssa.BinOp)
				if !isB {
					continue
				}
				zero, isZ := constInt(bo.Y)
				if !isZ || zero != 0 || typeShort(bo.X.Type()) != "int" {
					continue
				}
				s := 0
				switch bo.Op {
				case token.GTR: // x > 0
					s = map[bool]int{true: 1, false: -1}[ec.True]
				case token.GEQ:
					s = map[bool]int{true: 1, false: -1}[ec.True]
				case token.LSS: // x < 0
					s = map[bool]int{true: -1, false: 1}[ec.True]
				case token.LEQ:
					s = map[bool]int{true: -1, false: 1}[ec.True]
				}
				if s != 0 && sign == 0 {
					sign = s
				}
			}
			if sign == 0 {
				return
			}
			n++
			k++
			if fn == rup {
				key := fmt.Sprintf("%s assumption #%d has the opposite sign of its literal", w.FuncName(fn), k)
				r.Check(int64(sign) == -c, "R8.10", key, w.InstrPos(st), "the RUP test assumes the negation of each literal of the line",
					"the RUP test binds a literal of the line to true instead of assuming its negation: the line is then never refuted and valid certificates are rejected (or the wrong lines accepted)")
				return
			}
			key := fmt.Sprintf("%s unit binding #%d has the sign of its literal", w.FuncName(fn), k)
			r.Check(int64(sign) == c, "R8.10", key, w.InstrPos(st), fmt.Sprintf("%+d on the path where the literal is %s", c, map[int]string{1: "positive", -1: "negative"}[sign]),
				fmt.Sprintf("the constant %+d is recorded on the path where the literal is %s: the variable is bound to the opposite of the unit clause, the propagation then takes that clause for falsified and every certificate line for derivable, and a satisfiable subset is returned as unsatisfiable core", c, map[int]string{1: "positive", -1: "negative"}[sign]))
		})
	}
	if n == 0 {
		r.Unk("R8.10", "unit bindings", "-", "no store of +1 / -1 into a table of bindings under a sign test found in package explain")
	}
}

// ---------- R1.14: retraction puts every unbound variable back into the decision queue ----------

func ruleR1_14(w *World, r *Report) {
	r.Rule("R1.14", "in the function that retracts bindings, every variable it unbinds (model[v] = 0 inside a loop over the trail) is, before the next iteration, inserted into the decision queue or known to be in it (a `contains` test that answered true): the decision function finds unbound variables only through the queue", 1)
	cleaner := levelCleaner(w)
	if cleaner == nil {
		r.Unk("R1.14", "retraction function", "-", "not found")
		return
	}
	key := w.FuncName(cleaner) + " re-queues what it unbinds"
	n := 0
	var bad []string
	for _, h := range loopHeaders(cleaner) {
		body := loopBlocks(cleaner, h)
		for b := range body {
			for _, ins := range b.Instrs {
				st, ok := ins.(*ssa.Store)
				if !ok {
					continue
				}
				ia, ok := st.Addr.(*ssa.IndexAddr)
				if !ok {
					continue
				}
				if _, isM := isFieldLoad(ia.X, "solver.Solver", "model"); !isM {
					continue
				}
				if z, isZ := constInt(st.Val); !isZ || z != 0 {
					continue
				}
				n++
				// paths from the store to the header
				missing := map[string]bool{}
				exploreEdges(b, &pstate{phi: map[*ssa.Phi]ssa.Value{}, facts: map[string]string{}},
					func(bb *ssa.BasicBlock) bool { return bb == h || !body[bb] },
					func(i2 ssa.Instruction, ps *pstate) {
						if i2 == ssa.Instruction(st) {
							ps.facts["after"] = "yes"
							return
						}
						if ps.facts["after"] != "yes" {
							return
						}
						if c, isC := i2.(*ssa.Call); isC {
							name := w.calleeName(&c.Call)
							if strings.HasSuffix(name, ".insert") && strings.Contains(name, "queue") {
								ps.facts["queued"] = "yes"
							}
						}
					},
					func(from, to *ssa.BasicBlock, ps *pstate) {
						if ps.facts["after"] != "yes" {
							return
						}
						// the outcome of a `contains` test taken on this edge
						if iff, isIf := from.Instrs[len(from.Instrs)-1].(*ssa.If); isIf {
							cond, pol := iff.Cond, from.Succs[0] == to
							for {
								if u, ok := cond.(*ssa.UnOp); ok && u.Op == token.NOT {
									cond, pol = u.X, !pol
									continue
								}
								break
							}
							if c, isC := cond.(*ssa.Call); isC && pol {
								name := w.calleeName(&c.Call)
								if strings.HasSuffix(name, ".contains") && strings.Contains(name, "queue") {
									ps.facts["queued"] = "yes"
								}
							}
						}
						if to == h && ps.facts["queued"] != "yes" {
							missing[w.InstrPos(from.Instrs[len(from.Instrs)-1])] = true
						}
					})
				for p := range missing {
					bad = append(bad, p)
				}
			}
		}
	}
	if n == 0 {
		r.Unk("R1.14", key, w.Pos(cleaner.Pos()), "no store model[v] = 0 inside a loop of the retraction function")
		return
	}
	if len(bad) > 0 {
		r.Bad("R1.14", key, w.Pos(cleaner.Pos()), "a variable is unbound and the next one is taken up (from "+strings.Join(sortedStrings(dedupe(bad)), ", ")+") without the variable having been put back into the decision queue or found there: it is never decided again, the search stops with it unbound and answers Sat with a model that need not satisfy the clauses it occurs in")
	} else {
		r.OK("R1.14", key, w.Pos(cleaner.Pos()), fmt.Sprintf("%d unbinding store(s), each followed by insert or a positive contains test", n))
	}
}

// ---------- R1.15: a watcher examined by the propagation is kept or moved ----------

func ruleR1_15(w *World, r *Report) {
	r.Rule("R1.15", "in a loop that compacts a watch list while examining it (kept entries copied down to a second index), every iteration that goes on to the next entry has copied the current one down or has appended it to another watch list: a clause never loses a watcher", 1)
	// movers: functions answering a boolean that append to a watch list on every path that answers true
	movers := map[*ssa.Function]bool{}
	for _, hf := range w.LibFns() {
		if w.PkgName(hf) != "solver" || len(hf.Blocks) == 0 || hf.Signature.Results().Len() != 1 || typeShort(hf.Signature.Results().At(0).Type()) != "bool" {
			continue
		}
		var appends []*ssa.Store
		allInstrs(hf, func(ins ssa.Instruction) {
			if st, ok := ins.(*ssa.Store); ok {
				if c, isC := st.Val.(*ssa.Call); isC {
					if b, isB := c.Call.Value.(*ssa.Builtin); isB && b.Name() == "append" && strings.Contains(chainOf(st.Addr), ".wlist") {
						appends = append(appends, st)
					}
				}
			}
		})
		if len(appends) == 0 {
			continue
		}
		okAll, trues := true, 0
		allInstrs(hf, func(ins ssa.Instruction) {
			ret, ok := ins.(*ssa.Return)
			if !ok || len(ret.Results) != 1 {
				return
			}
			if k, isK := ret.Results[0].(*ssa.Const); isK && k.Value != nil && k.Value.String() == "false" {
				return
			}
			trues++
			after := false
			for _, st := range appends {
				if instrDominates(st, ret) {
					after = true
				}
			}
			if !after {
				okAll = false
			}
		})
		if okAll && trues > 0 {
			movers[hf] = true
		}
	}
	n := 0
	for _, fn := range w.LibFns() {
		if w.PkgName(fn) != "solver" || len(fn.Blocks) == 0 {
			continue
		}
		k := 0
		for _, h := range loopHeaders(fn) {
			body := loopBlocks(fn, h)
			// the list compacted: stores into IndexAddr(L, j), L loaded from a watch list, j a phi of this header
			var list ssa.Value
			keeps := map[ssa.Instruction]bool{}
			for b := range body {
				for _, ins := range b.Instrs {
					st, ok := ins.(*ssa.Store)
					if !ok {
						continue
					}
					ia, ok := st.Addr.(*ssa.IndexAddr)
					if !ok {
						continue
					}
					jp, isPhi := ia.Index.(*ssa.Phi)
					if !isPhi || jp.Block() != h {
						continue
					}
					ld, isLd := ia.X.(*ssa.UnOp)
					if !isLd || ld.Op != token.MUL || !strings.Contains(chainOf(ld.X), ".wlist") {
						continue
					}
					// j must not be the range index of the loop (an in-place update is not a compaction)
					if fullRangeIndex(jp, func(ssa.Value) bool { return true }) {
						continue
					}
					list = ia.X
					keeps[st] = true
				}
			}
			if list == nil {
				continue
			}
			n++
			k++
			key := fmt.Sprintf("%s watch-list compaction #%d conserves watchers", w.FuncName(fn), k)
			missing := map[string]bool{}
			start := h.Succs[0]
			if !body[start] {
				start = h.Succs[1]
			}
			exploreEdges(start, &pstate{phi: map[*ssa.Phi]ssa.Value{}, facts: map[string]string{}, coarse: true},
				func(bb *ssa.BasicBlock) bool { return bb == h || !body[bb] },
				func(ins ssa.Instruction, ps *pstate) {
					if keeps[ins] {
						ps.facts["done"] = "kept"
					}
					if st, ok := ins.(*ssa.Store); ok && !keeps[ins] {
						if c, isC := st.Val.(*ssa.Call); isC {
							if b, isB := c.Call.Value.(*ssa.Builtin); isB && b.Name() == "append" && strings.Contains(chainOf(st.Addr), ".wlist") {
								ps.facts["done"] = "moved"
							}
						}
					}
				},
				func(from, to *ssa.BasicBlock, ps *pstate) {
					// `if s.moveWatch(c, w) { continue }`: a helper that files the watcher under another literal and says so
					if iff, isIf := from.Instrs[len(from.Instrs)-1].(*ssa.If); isIf && len(from.Succs) == 2 {
						cond, pol := iff.Cond, from.Succs[0] == to
						for {
							if u, ok := cond.(*ssa.UnOp); ok && u.Op == token.NOT {
								cond, pol = u.X, !pol
								continue
							}
							break
						}
						if c, isC := cond.(*ssa.Call); isC && pol {
							if hf := c.Call.StaticCallee(); hf != nil && movers[hf] {
								ps.facts["done"] = "moved"
							}
						}
					}
					if to == h && ps.facts["done"] == "" {
						missing[w.InstrPos(from.Instrs[len(from.Instrs)-1])] = true
					}
				})
			if len(missing) > 0 {
				var ps []string
				for p := range missing {
					ps = append(ps, p)
				}
				r.Bad("R1.15", key, w.InstrPos(h.Instrs[len(h.Instrs)-1]), "an iteration goes on to the next watcher (from "+strings.Join(sortedStrings(ps), ", ")+") without having kept the current one or filed it under another literal: the clause loses that watcher for good, and once both are lost it is never looked at again - also when all its literals become false")
			} else {
				r.OK("R1.15", key, w.InstrPos(h.Instrs[len(h.Instrs)-1]), "every iteration keeps or moves the watcher")
			}
		}
	}
	if n == 0 {
		r.Unk("R1.15", "watch-list compaction", "-", "no loop of package solver compacts a watch list")
	}
}

// ---------- R11.10 / R11.11: numbering of variables in the clause translation ----------

func ruleR11_10(w *World, r *Report) {
	r.Rule("R11.10", "where the clause translation gives a problem variable (a variable of a literal of the formula) its number, the number is recorded in the table of problem variables in the same step as in the table of all variables - not on some later path only (a variable met only negated would be missing from the models returned)", 1)
	m, _ := bfOf(w)
	if m.err != "" {
		r.Unk("R11.10", "numbering of problem variables", "-", m.err)
		return
	}
	n := 0
	for _, fn := range m.fns {
		// functions that take a literal of the formula
		takesLit := false
		for _, p := range fn.Params {
			if typeShort(p.Type()) == "bf.lit" {
				takesLit = true
			}
		}
		if !takesLit {
			continue
		}
		allInstrs(fn, func(ins ssa.Instruction) {
			// a shared numbering step that records into the table of all variables (`val = vars.add(l.v)`)
			if c, isC := ins.(*ssa.Call); isC {
				g := c.Call.StaticCallee()
				if g == nil || !m.inPkg[g] || !returnsFreshIndex(g) {
					return
				}
				ki := -1
				allInstrs(g, func(i2 ssa.Instruction) {
					if mu, ok := i2.(*ssa.MapUpdate); ok {
						if _, f, _, okF := loadedFieldOf(mu.Map); okF && f == "all" {
							ki = paramIndex(g, mu.Key)
						}
					}
				})
				if ki < 0 || ki >= len(c.Call.Args) {
					return
				}
				n++
				key := fmt.Sprintf("%s records the number of a problem variable in both tables", w.FuncName(fn))
				paired := false
				for _, i2 := range c.Block().Instrs {
					if m2, ok := i2.(*ssa.MapUpdate); ok && sameLoad(m2.Key, c.Call.Args[ki]) {
						if _, f2, _, okF := loadedFieldOf(m2.Map); okF && f2 == "pb" {
							// the value recorded is the number just handed out (possibly through the local it was assigned to)
							if m2.Value == ssa.Value(c) {
								paired = true
							}
							if phi, isPhi := m2.Value.(*ssa.Phi); isPhi {
								for _, e := range phi.Edges {
									if e == ssa.Value(c) {
										paired = true
									}
								}
							}
						}
					}
				}
				r.Check(paired, "R11.10", key, w.InstrPos(c), "both tables updated in the same block",
					"the number of a problem variable is recorded in the table of all variables but not, in the same step, in the table of problem variables: a variable whose first (or only) occurrences take the other path never appears in the model returned by Solve, or under another number in the export")
				return
			}
			mu, ok := ins.(*ssa.MapUpdate)
			if !ok {
				return
			}
			if _, f, _, okF := loadedFieldOf(mu.Map); !okF || f != "all" {
				return
			}
			n++
			key := fmt.Sprintf("%s records the number of a problem variable in both tables", w.FuncName(fn))
			paired := false
			for _, i2 := range mu.Block().Instrs {
				if m2, ok := i2.(*ssa.MapUpdate); ok && m2 != mu && sameLoad(m2.Key, mu.Key) && m2.Value == mu.Value {
					if _, f2, _, okF := loadedFieldOf(m2.Map); okF && f2 == "pb" {
						paired = true
					}
				}
			}
			r.Check(paired, "R11.10", key, w.InstrPos(mu), "both tables updated in the same block",
				"the number of a problem variable is recorded in the table of all variables but not, in the same step, in the table of problem variables: a variable whose first (or only) occurrences take the other path never appears in the model returned by Solve, or under another number in the export")
		})
	}
	if n == 0 {
		r.Unk("R11.10", "numbering of problem variables", "-", "no function of package bf taking a literal updates the table of all variables")
	}
}

func ruleR11_11(w *World, r *Report) {
	r.Rule("R11.11", "in the clause translation, a return that hands back a list without any clause is not reachable (within the same activation) from a call that gave a variable its number: a variable that was numbered occurs in a clause that is returned, so the problem built from the clauses knows every number the variable tables know", 1)
	m, _ := bfOf(w)
	if m.err != "" {
		r.Unk("R11.11", "clause translation", "-", m.err)
		return
	}
	n := 0
	for _, fn := range m.fns {
		res := fn.Signature.Results()
		if res.Len() != 1 || typeShort(res.At(0).Type()) != "[][]int" {
			continue
		}
		// numbering calls: methods of the variable tables returning int
		var numbering []*ssa.Call
		for _, ci := range callsIn(fn) {
			c, ok := ci.(*ssa.Call)
			sc := ci.Common().StaticCallee()
			if !ok || sc == nil || sc.Signature.Recv() == nil || typeShort(sc.Signature.Recv().Type()) != "*bf.vars" || typeShort(c.Type()) != "int" {
				continue
			}
			numbering = append(numbering, c)
		}
		if len(numbering) == 0 {
			continue
		}
		n++
		key := w.FuncName(fn) + " returns the clauses of the variables it numbers"
		var bad []string
		allInstrs(fn, func(ins ssa.Instruction) {
			ret, ok := ins.(*ssa.Return)
			if !ok || len(ret.Results) != 1 || !emptyListOfLists(ret.Results[0]) {
				return
			}
			for _, c := range numbering {
				if instrReachableFrom(c, ret) {
					bad = append(bad, w.InstrPos(ret))
				}
			}
		})
		if len(bad) > 0 {
			r.Bad("R11.11", key, w.Pos(fn.Pos()), "a return of an empty clause list (at "+strings.Join(sortedStrings(dedupe(bad)), ", ")+") can follow the numbering of a variable: that variable then occurs in no clause, the solver is built with fewer variables than the tables know, and reading its model at the variable's number runs out of range (Solve panics) or the export's header disagrees with its clauses")
		} else {
			r.OK("R11.11", key, w.Pos(fn.Pos()), fmt.Sprintf("%d numbering call(s); empty lists are returned only where nothing was numbered", len(numbering)))
		}
	}
	if n == 0 {
		r.Unk("R11.11", "clause translation", "-", "no function of package bf returns [][]int and numbers variables")
	}
}

// emptyListOfLists: v is a composite literal / make of length 0 (no element stored).
func emptyListOfLists(v ssa.Value) bool {
	switch x := v.(type) {
	case *ssa.MakeSlice:
		k, ok := constInt(x.Len)
		return ok && k == 0
	case *ssa.Slice:
		al, ok := x.X.(*ssa.Alloc)
		if !ok {
			return false
		}
		pt, ok := al.Type().Underlying().(*types.Pointer)
		if !ok {
			return false
		}
		arr, ok := pt.Elem().Underlying().(*types.Array)
		return ok && arr.Len() == 0
	case *ssa.Const:
		return x.IsNil()
	}
	return false
}
