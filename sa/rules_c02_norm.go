package main

import (
	"fmt"
	"go/token"
	"go/types"
	"strings"

	"golang.org/x/tools/go/ssa"
)

// Rules R2.3 / R2.4: the constraint normalisers of package solver (pb.go, card.go) perform their sign /
// degree bookkeeping as coupled updates. Each is a small algebraic identity visible in the code:
//   sum w_i l_i >= n  with w_i < 0   ==  ... + |w_i| (not l_i) >= n + |w_i|
//   sum w_i l_i <= n                 ==  sum w_i (not l_i) >= (sum w_i) - n
//   at most n of L                   ==  at least len(L) - n of (not L)

// returnedStruct maps field name -> stored value for a function returning a composite literal.
func returnedStruct(fn *ssa.Function) (map[string]ssa.Value, *ssa.Return) {
	var ret *ssa.Return
	n := 0
	allInstrs(fn, func(ins ssa.Instruction) {
		if r, ok := ins.(*ssa.Return); ok {
			ret = r
			n++
		}
	})
	if n != 1 || len(ret.Results) != 1 {
		return nil, nil
	}
	ld, ok := ret.Results[0].(*ssa.UnOp)
	if !ok || ld.Op != token.MUL {
		return nil, ret
	}
	al, ok := ld.X.(*ssa.Alloc)
	if !ok {
		return nil, ret
	}
	out := map[string]ssa.Value{}
	for _, r := range *al.Referrers() {
		fa, ok := r.(*ssa.FieldAddr)
		if !ok {
			continue
		}
		_, name, _, _ := fieldOf(fa)
		for _, r2 := range *fa.Referrers() {
			if st, ok := r2.(*ssa.Store); ok && st.Addr == fa {
				out[name] = st.Val
			}
		}
	}
	return out, ret
}

// negatedCopyLoop: dst[i] = -src[i] for every i of a full range loop over src (or dst of the same length).
func negatedCopyLoop(fn *ssa.Function, dst, src ssa.Value) bool {
	ok := false
	allInstrs(fn, func(ins ssa.Instruction) {
		st, isSt := ins.(*ssa.Store)
		if !isSt {
			return
		}
		ia, isIA := st.Addr.(*ssa.IndexAddr)
		if !isIA || ia.X != dst {
			return
		}
		if !isNegOfElem(st.Val, src, ia.Index) {
			return
		}
		same := func(x ssa.Value) bool { return x == src || x == dst }
		if fullRangeIndex(ia.Index, func(b ssa.Value) bool { return isLenOf(b, same) }) {
			ok = true
		}
	})
	return ok
}

// freshCopyOf: v is make([]T, len(src)) followed by copy(v, src).
func freshCopyOf(v, src ssa.Value) bool {
	mk, ok := v.(*ssa.MakeSlice)
	if !ok || !isLenOf(mk.Len, func(x ssa.Value) bool { return x == src }) {
		return false
	}
	for _, r := range *mk.Referrers() {
		if c, ok := r.(*ssa.Call); ok {
			if b, ok := c.Call.Value.(*ssa.Builtin); ok && b.Name() == "copy" && c.Call.Args[0] == ssa.Value(mk) && c.Call.Args[1] == src {
				return true
			}
		}
	}
	return false
}

func ruleR2_3(w *World, r *Report) {
	r.Rule("R2.3", "solver.GtEq normalises a negative coefficient by three coupled updates (coefficient negated, literal negated, degree raised by the absolute value) and removes a zero coefficient from both slices at the same index, re-examining that index", 4)
	fn := w.Func("solver", "GtEq")
	if fn == nil || len(fn.Params) != 3 {
		r.Unk("R2.3", "solver.GtEq", "-", "function not found or signature changed")
		return
	}
	litsP, weightsP, nP := fn.Params[0], fn.Params[1], fn.Params[2]
	// slices may be phis carrying the (re-sliced) parameter through the loop
	derives := func(v ssa.Value, p *ssa.Parameter) bool {
		seen := map[ssa.Value]bool{}
		var walk func(x ssa.Value) bool
		walk = func(x ssa.Value) bool {
			if x == ssa.Value(p) {
				return true
			}
			if seen[x] {
				return false
			}
			seen[x] = true
			switch y := x.(type) {
			case *ssa.Phi:
				for _, e := range y.Edges {
					if walk(e) {
						return true
					}
				}
			case *ssa.Call:
				if b, ok := y.Call.Value.(*ssa.Builtin); ok && b.Name() == "append" {
					return walk(y.Call.Args[0])
				}
			case *ssa.Slice:
				return walk(y.X)
			}
			return false
		}
		return walk(v)
	}
	// the test `weights[i] < 0`
	var negIf *ssa.If
	var zeroIf *ssa.If
	var W, I ssa.Value
	allInstrs(fn, func(ins ssa.Instruction) {
		iff, ok := ins.(*ssa.If)
		if !ok {
			return
		}
		bo, ok := iff.Cond.(*ssa.BinOp)
		if !ok {
			return
		}
		k, isK := constInt(bo.Y)
		if !isK || k != 0 {
			return
		}
		ld, ok := bo.X.(*ssa.UnOp)
		if !ok || ld.Op != token.MUL {
			return
		}
		ia, ok := ld.X.(*ssa.IndexAddr)
		if !ok || !derives(ia.X, weightsP) {
			return
		}
		if bo.Op == token.LSS {
			negIf, W, I = iff, ia.X, ia.Index
		}
		if bo.Op == token.EQL {
			zeroIf = iff
		}
	})
	pos := w.Pos(fn.Pos())
	if negIf == nil {
		r.Bad("R2.3", "solver.GtEq negative coefficient: test", pos, "no test `weights[i] < 0`: negative coefficients reach the solver, whose propagation assumes positive ones")
	} else {
		region := map[*ssa.BasicBlock]bool{}
		t := negIf.Block().Succs[0]
		for _, b := range fn.Blocks {
			if len(t.Preds) == 1 && t.Dominates(b) {
				region[b] = true
			}
		}
		var wStore, lStore *ssa.Store
		for b := range region {
			for _, ins := range b.Instrs {
				st, ok := ins.(*ssa.Store)
				if !ok {
					continue
				}
				ia, ok := st.Addr.(*ssa.IndexAddr)
				if !ok || ia.Index != I {
					continue
				}
				if ia.X == W && isNegOfElem(st.Val, W, I) {
					wStore = st
				}
				if derives(ia.X, litsP) && ia.X != W && isNegOfElem(st.Val, ia.X, I) {
					lStore = st
				}
			}
		}
		r.Check(wStore != nil, "R2.3", "solver.GtEq negative coefficient: coefficient negated", w.InstrPos(negIf), "weights[i] = -weights[i]", "a negative coefficient is not replaced by its absolute value")
		r.Check(lStore != nil, "R2.3", "solver.GtEq negative coefficient: literal negated", w.InstrPos(negIf), "lits[i] = -lits[i]", "the literal of a negative coefficient is not negated: w*l is replaced by |w|*l instead of |w|*(not l)")
		// degree: some phi of n merges (n_prev + new weight) or (n_prev - old weight) from the region
		degOK := false
		allInstrs(fn, func(ins ssa.Instruction) {
			phi, ok := ins.(*ssa.Phi)
			if !ok || typeShort(phi.Type()) != "int" {
				return
			}
			for i, e := range phi.Edges {
				if !region[phi.Block().Preds[i]] {
					continue
				}
				bo, ok := e.(*ssa.BinOp)
				if !ok {
					continue
				}
				prev := func(v ssa.Value) bool {
					if v == ssa.Value(nP) {
						return true
					}
					p, ok := v.(*ssa.Phi)
					if !ok {
						return false
					}
					for _, pe := range p.Edges {
						if pe == ssa.Value(nP) {
							return true
						}
					}
					return false
				}
				if bo.Op == token.ADD && prev(bo.X) && isElemLoad(bo.Y, W, I) && wStore != nil && instrDominates(wStore, bo.Y.(ssa.Instruction)) {
					degOK = true
				}
				if bo.Op == token.SUB && prev(bo.X) && isElemLoad(bo.Y, W, I) && (wStore == nil || instrDominates(bo.Y.(ssa.Instruction), wStore)) {
					degOK = true
				}
			}
		})
		r.Check(degOK, "R2.3", "solver.GtEq negative coefficient: degree raised", w.InstrPos(negIf), "n += |weights[i]|", "the degree is not raised by the absolute value of a negative coefficient: the normalised constraint is weaker or stronger than the original")
	}
	if zeroIf == nil {
		r.Bad("R2.3", "solver.GtEq zero coefficient removed", pos, "no test `weights[i] == 0`")
	} else {
		t := zeroIf.Block().Succs[0]
		var wCut, lCut, back bool
		for _, ins := range t.Instrs {
			switch x := ins.(type) {
			case *ssa.Call:
				b, ok := x.Call.Value.(*ssa.Builtin)
				if !ok || b.Name() != "append" || len(x.Call.Args) != 2 {
					continue
				}
				a0, ok0 := x.Call.Args[0].(*ssa.Slice)
				a1, ok1 := x.Call.Args[1].(*ssa.Slice)
				if !ok0 || !ok1 || a0.X != a1.X || a0.High != I || a0.Low != nil || a1.High != nil || a1.Low == nil {
					continue
				}
				if !lfOf(a1.Low, 0).equal(lfAdd(lfOf(I, 0), linForm{c: 1, terms: map[string]int64{}}, 1)) {
					continue
				}
				if derives(a0.X, weightsP) {
					wCut = true
				} else if derives(a0.X, litsP) {
					lCut = true
				}
			case *ssa.BinOp:
				if x.Op == token.SUB && x.X == I {
					if k, ok := constInt(x.Y); ok && k == 1 {
						back = true
					}
				}
			}
		}
		// stepping back, seen from the next iteration: on every path from the removal to the loop header the index
		// arrives unchanged (`i--` then the `i++` of the loop, or `continue` before the increment)
		if iphi, isPhi := I.(*ssa.Phi); isPhi {
			forms, complete := nextIterationForms(iphi, t)
			same := complete && len(forms) > 0
			for _, f := range forms {
				if !f.equal(lfOf(I, 0)) {
					same = false
				}
			}
			back = same
		}
		var bad []string
		if !wCut {
			bad = append(bad, "the zero coefficient is not removed from the coefficients")
		}
		if !lCut {
			bad = append(bad, "the literal of a zero coefficient is not removed from the literals (the slices get out of step)")
		}
		if !back {
			bad = append(bad, "the index is not stepped back after the removal: the term shifted into position i is skipped")
		}
		if len(bad) > 0 {
			r.Bad("R2.3", "solver.GtEq zero coefficient removed", w.InstrPos(zeroIf), strings.Join(bad, "; "))
		} else {
			r.OK("R2.3", "solver.GtEq zero coefficient removed", w.InstrPos(zeroIf), "both slices cut at i, index stepped back")
		}
	}
	// result: the three normalised quantities are returned
	fields, ret := returnedStruct(fn)
	if fields == nil {
		r.Unk("R2.3", "solver.GtEq result", pos, "cannot read the returned composite literal")
	} else {
		ok := fields["Lits"] != nil && derives(fields["Lits"], litsP) && fields["Weights"] != nil && derives(fields["Weights"], weightsP)
		deg := fields["AtLeast"]
		okDeg := false
		if p, isPhi := deg.(*ssa.Phi); isPhi {
			for _, e := range p.Edges {
				if e == ssa.Value(nP) {
					okDeg = true
				}
			}
		} else if deg == ssa.Value(nP) {
			okDeg = true
		}
		r.Check(ok && okDeg, "R2.3", "solver.GtEq result", w.InstrPos(ret), "normalised literals, coefficients and degree are returned", "the result does not carry the normalised literals / coefficients / degree")
	}
}

func ruleR2_4(w *World, r *Report) {
	r.Rule("R2.4", "the derived constraint builders are the stated identities: LtEq negates every literal and asks for (sum of weights) - n; AtMost / AtMost1 negate every literal into a fresh slice and ask for len - n / len - 1; Eq hands private copies to one of its two normalisations and keeps each side only when its degree is positive; Exactly1 is AtLeast1 and AtMost1 of the same literals", 6)
	zero := linForm{terms: map[string]int64{}}
	_ = zero
	// ---- LtEq ----
	if fn := w.Func("solver", "LtEq"); fn == nil || len(fn.Params) != 3 {
		r.Unk("R2.4", "solver.LtEq", "-", "function not found")
	} else {
		var bad []string
		if !negatedCopyLoop(fn, fn.Params[0], fn.Params[0]) {
			bad = append(bad, "the literals are not all negated in place")
		}
		// the call to the >= normaliser with degree sum - n
		var call *ssa.Call
		for _, ci := range callsIn(fn) {
			if c, ok := ci.(*ssa.Call); ok && w.staticCalleeIs(c, w.Func("solver", "GtEq")) {
				call = c
			}
		}
		if call == nil {
			bad = append(bad, "the result is not built by the >= normaliser")
		} else {
			d := call.Call.Args[2]
			bo, ok := d.(*ssa.BinOp)
			if !ok || bo.Op != token.SUB || bo.Y != ssa.Value(fn.Params[2]) {
				bad = append(bad, "the degree passed on is not (sum of the weights) - n")
			} else {
				// bo.X must be the accumulator summing weights[i] over the full range
				acc, ok := bo.X.(*ssa.Phi)
				sumOK := false
				if ok {
					for _, e := range acc.Edges {
						if add, ok := e.(*ssa.BinOp); ok && add.Op == token.ADD && add.X == ssa.Value(acc) {
							if ld, ok := add.Y.(*ssa.UnOp); ok && ld.Op == token.MUL {
								if ia, ok := ld.X.(*ssa.IndexAddr); ok && ia.X == ssa.Value(fn.Params[1]) {
									sumOK = true
								}
							}
						}
					}
				}
				if !sumOK {
					bad = append(bad, "the degree is not computed from the sum of all weights")
				}
			}
			if call.Call.Args[0] != ssa.Value(fn.Params[0]) || call.Call.Args[1] != ssa.Value(fn.Params[1]) {
				bad = append(bad, "the negated literals / the weights are not what is passed on")
			}
		}
		if len(bad) > 0 {
			r.Bad("R2.4", "solver.LtEq", w.Pos(fn.Pos()), strings.Join(bad, "; "))
		} else {
			r.OK("R2.4", "solver.LtEq", w.Pos(fn.Pos()), "GtEq(-lits, weights, sum(weights) - n)")
		}
	}
	// ---- AtMost (solver.AtMost) and AtMost1 (card.go) ----
	for _, name := range []string{"AtMost", "AtMost1"} {
		fn := w.Func("solver", name)
		if fn == nil {
			r.Unk("R2.4", "solver."+name, "-", "function not found")
			continue
		}
		fields, _ := returnedStruct(fn)
		var bad []string
		if fields == nil {
			r.Unk("R2.4", "solver."+name, w.Pos(fn.Pos()), "cannot read the returned composite literal")
			continue
		}
		src := ssa.Value(fn.Params[0])
		dst := fields["Lits"]
		mk, isMk := dst.(*ssa.MakeSlice)
		if !isMk || !isLenOf(mk.Len, func(x ssa.Value) bool { return x == src }) {
			bad = append(bad, "the negated literals are not built in a fresh slice of the same length (the caller's slice would be changed)")
		} else if !negatedCopyLoop(fn, dst, src) {
			bad = append(bad, "the result literals are not the negation of every given literal")
		}
		want := lfOf(nil2len(src, mk), 0)
		if name == "AtMost" && len(fn.Params) == 2 {
			want = lfAdd(want, lfOf(fn.Params[1], 0), -1)
		} else {
			want = lfAdd(want, linForm{c: 1, terms: map[string]int64{}}, -1)
		}
		got := lfOf(fields["AtLeast"], 0)
		// len(lits2) and len(lits) are the same quantity
		norm := func(l linForm) string {
			s := l.String()
			if mk != nil {
				s = strings.ReplaceAll(s, "len("+lfAtom(mk)+")", "len("+lfAtom(src)+")")
			}
			return s
		}
		if fields["AtLeast"] == nil || norm(got) != norm(want) {
			bad = append(bad, fmt.Sprintf("the degree is %s, expected %s", norm(got), norm(want)))
		}
		if len(bad) > 0 {
			r.Bad("R2.4", "solver."+name, w.Pos(fn.Pos()), strings.Join(bad, "; "))
		} else {
			r.OK("R2.4", "solver."+name, w.Pos(fn.Pos()), "fresh negated literals, degree "+norm(got))
		}
	}
	// ---- Eq ----
	if fn := w.Func("solver", "Eq"); fn == nil || len(fn.Params) != 3 {
		r.Unk("R2.4", "solver.Eq", "-", "function not found")
	} else {
		ge, le := w.Func("solver", "GtEq"), w.Func("solver", "LtEq")
		var geCall, leCall *ssa.Call
		for _, ci := range callsIn(fn) {
			c, ok := ci.(*ssa.Call)
			if !ok {
				continue
			}
			if w.staticCalleeIs(c, ge) {
				geCall = c
			}
			if w.staticCalleeIs(c, le) {
				leCall = c
			}
		}
		var bad []string
		if geCall == nil || leCall == nil {
			bad = append(bad, "an equality is not split into a >= and a <= constraint")
		} else {
			// both normalisers write their arguments in place: they must not share slices
			private := func(c *ssa.Call) bool {
				return freshCopyOf(c.Call.Args[0], fn.Params[0]) && freshCopyOf(c.Call.Args[1], fn.Params[1])
			}
			if !private(geCall) && !private(leCall) {
				bad = append(bad, "both sides are normalised on the same slices: the in-place sign changes of the first corrupt the second")
			}
			for _, c := range []*ssa.Call{geCall, leCall} {
				if c.Call.Args[2] != ssa.Value(fn.Params[2]) {
					bad = append(bad, "a side is built with a degree other than n")
				}
			}
			// each side kept iff its AtLeast > 0
			for _, c := range []*ssa.Call{geCall, leCall} {
				kept := false
				allInstrs(fn, func(ins ssa.Instruction) {
					iff, ok := ins.(*ssa.If)
					if !ok {
						return
					}
					bo, ok := iff.Cond.(*ssa.BinOp)
					if !ok || bo.Op != token.GTR {
						return
					}
					if k, ok := constInt(bo.Y); !ok || k != 0 {
						return
					}
					// bo.X = field AtLeast of the call's result
					if f, ok := bo.X.(*ssa.Field); ok && f.X == ssa.Value(c) {
						kept = true
					}
					if ld, ok := bo.X.(*ssa.UnOp); ok && ld.Op == token.MUL {
						if fa, ok := ld.X.(*ssa.FieldAddr); ok {
							_, fname, base, _ := fieldOf(fa)
							if al, ok := base.(*ssa.Alloc); ok && fname == "AtLeast" {
								for _, rr := range *al.Referrers() {
									if st, ok := rr.(*ssa.Store); ok && st.Val == ssa.Value(c) {
										kept = true
									}
								}
							}
						}
					}
				})
				if !kept {
					bad = append(bad, "a side is not filtered by `AtLeast > 0` (a trivially true side would reach the constructor, which rejects degree <= 0)")
				}
			}
		}
		if len(bad) > 0 {
			r.Bad("R2.4", "solver.Eq", w.Pos(fn.Pos()), strings.Join(dedupe(bad), "; "))
		} else {
			r.OK("R2.4", "solver.Eq", w.Pos(fn.Pos()), "GtEq on private copies, LtEq on the arguments, each kept when its degree is positive")
		}
	}
	// ---- AtLeast1 / PropClause / Exactly1 ----
	for _, name := range []string{"AtLeast1", "PropClause"} {
		fn := w.Func("solver", name)
		if fn == nil {
			r.Unk("R2.4", "solver."+name, "-", "function not found")
			continue
		}
		fields, _ := returnedStruct(fn)
		ok := fields != nil && fields["Lits"] == ssa.Value(fn.Params[0])
		if ok {
			k, isK := constInt(fields["AtLeast"])
			ok = isK && k == 1
		}
		r.Check(ok, "R2.4", "solver."+name, w.Pos(fn.Pos()), "the given literals with degree 1", "a clause is not built as (its literals, degree 1)")
	}
	if fn := w.Func("solver", "Exactly1"); fn == nil {
		r.Unk("R2.4", "solver.Exactly1", "-", "function not found")
	} else {
		a1, m1 := w.Func("solver", "AtLeast1"), w.Func("solver", "AtMost1")
		var ca, cm *ssa.Call
		for _, ci := range callsIn(fn) {
			c, ok := ci.(*ssa.Call)
			if !ok {
				continue
			}
			if w.staticCalleeIs(c, a1) {
				ca = c
			}
			if w.staticCalleeIs(c, m1) {
				cm = c
			}
		}
		ok := ca != nil && cm != nil && ca.Call.Args[0] == ssa.Value(fn.Params[0]) && cm.Call.Args[0] == ssa.Value(fn.Params[0])
		r.Check(ok, "R2.4", "solver.Exactly1", w.Pos(fn.Pos()), "AtLeast1 and AtMost1 of the same literals", "exactly-one is not the conjunction of at-least-one and at-most-one over the same literals")
	}
	_ = types.Typ
}

// nil2len returns a value whose linear form is len(src): a synthetic by reusing the MakeSlice length if present.
func nil2len(src ssa.Value, mk *ssa.MakeSlice) ssa.Value {
	if mk != nil {
		return mk.Len
	}
	return src
}
