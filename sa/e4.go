package main

import (
	"fmt"
	"go/types"
	"sort"
	"strings"

	"golang.org/x/tools/go/ssa"
)

// Engine E4: storage-distance analysis. For a chosen set of protected storage, every SSA value of
// reference-bearing type gets d in {0,1,2,3,inf}: the number of loads needed to get from it into protected
// storage (0: it is a reference into it). Whole program, context insensitive, flow insensitive per allocation
// site; every approximation lowers a distance, i.e. is conservative.

const e4inf = 99

func e4cap(d int) int {
	if d >= e4inf {
		return e4inf
	}
	if d > 3 {
		return 3
	}
	if d < 0 {
		return 0
	}
	return d
}
func e4plus(d, k int) int {
	if d >= e4inf {
		return e4inf
	}
	return e4cap(d + k)
}
func e4minus1(d int) int {
	if d >= e4inf {
		return e4inf
	}
	if d == 0 {
		return 0
	}
	return d - 1
}
func e4min(a, b int) int {
	if a < b {
		return a
	}
	return b
}

type e4sink struct {
	Fn    *ssa.Function
	Instr ssa.Instruction
	Kind  string
	Addr  ssa.Value
	Chain string
}

type e4 struct {
	w *World
	// protection
	protGlobal func(g *ssa.Global) bool
	protParam  map[*ssa.Parameter]bool
	// loads of these globals yield values outside protected storage (immutable content, e.g. empty structs)
	inertGlobal  map[*ssa.Global]string
	appendIsSink bool

	d       map[ssa.Value]int
	content map[ssa.Value]int
	changed bool
	sinks   map[string]e4sink
	// returns of exported functions at distance 0 (handing out shared storage)
	leaks map[string]e4sink
	Iter  int
	fns   []*ssa.Function
}

func refBearing(t types.Type) bool {
	switch u := t.Underlying().(type) {
	case *types.Pointer, *types.Slice, *types.Map, *types.Chan, *types.Signature, *types.Interface:
		return true
	case *types.Struct:
		for i := 0; i < u.NumFields(); i++ {
			if refBearing(u.Field(i).Type()) {
				return true
			}
		}
	case *types.Array:
		return refBearing(u.Elem())
	case *types.Tuple:
		for i := 0; i < u.Len(); i++ {
			if refBearing(u.At(i).Type()) {
				return true
			}
		}
	}
	return false
}

func elemRef(t types.Type) bool {
	switch u := t.Underlying().(type) {
	case *types.Slice:
		return refBearing(u.Elem())
	case *types.Array:
		return refBearing(u.Elem())
	case *types.Pointer:
		return elemRef(u.Elem())
	}
	return false
}

func (a *e4) get(v ssa.Value) int {
	if v == nil {
		return e4inf
	}
	base := e4inf
	switch x := v.(type) {
	case *ssa.Global:
		if a.protGlobal != nil && a.protGlobal(x) {
			base = 0
		}
	case *ssa.Parameter:
		if a.protParam[x] {
			base = 0
		}
	case *ssa.Const, *ssa.Function, *ssa.Builtin:
		return e4inf
	}
	if d, ok := a.d[v]; ok {
		base = e4min(base, d)
	}
	if c, ok := a.content[v]; ok {
		base = e4min(base, e4plus(c, 1))
	}
	return base
}

func (a *e4) set(v ssa.Value, d int) {
	if d >= e4inf || v == nil {
		return
	}
	if !refBearing(v.Type()) {
		return
	}
	if old, ok := a.d[v]; !ok || d < old {
		a.d[v] = d
		a.changed = true
	}
}

func (a *e4) lowerContent(root ssa.Value, d int) {
	if d >= e4inf {
		return
	}
	if old, ok := a.content[root]; !ok || d < old {
		a.content[root] = d
		a.changed = true
	}
}

// e4roots chases address arithmetic back to the allocation sites / parameters / loads a reference is rooted in.
func e4roots(v ssa.Value, seen map[ssa.Value]bool, out *[]ssa.Value) {
	if v == nil || seen[v] {
		return
	}
	seen[v] = true
	switch x := v.(type) {
	case *ssa.FieldAddr:
		e4roots(x.X, seen, out)
	case *ssa.IndexAddr:
		e4roots(x.X, seen, out)
	case *ssa.Slice:
		e4roots(x.X, seen, out)
	case *ssa.Phi:
		for _, e := range x.Edges {
			e4roots(e, seen, out)
		}
	case *ssa.ChangeType:
		e4roots(x.X, seen, out)
	case *ssa.Convert:
		e4roots(x.X, seen, out)
	case *ssa.UnOp:
		// a slice / pointer loaded from a field of an object allocated in this function: what was stored into that
		// field (`pb2 := &Problem{Clauses: make(...)}; copy(pb2.Clauses, ...)` fills the array made there)
		if x.Op.String() == "*" {
			if fa, ok := x.X.(*ssa.FieldAddr); ok {
				if al, ok := fa.X.(*ssa.Alloc); ok {
					for _, ref := range *al.Referrers() {
						fa2, ok := ref.(*ssa.FieldAddr)
						if !ok || fa2.Field != fa.Field {
							continue
						}
						for _, r2 := range *fa2.Referrers() {
							if st, ok := r2.(*ssa.Store); ok && st.Addr == ssa.Value(fa2) {
								e4roots(st.Val, seen, out)
							}
						}
					}
				}
			}
		}
		*out = append(*out, v)
	default:
		*out = append(*out, v)
	}
}

// chainOf renders the syntactic address chain of a reference (used for exemptions and obligation keys).
func chainOf(v ssa.Value) string {
	switch x := v.(type) {
	case *ssa.FieldAddr:
		st := x.X.Type().Underlying().(*types.Pointer).Elem().Underlying().(*types.Struct)
		return chainOf(x.X) + "." + canonField(st.Field(x.Field))
	case *ssa.Field:
		st := x.X.Type().Underlying().(*types.Struct)
		return chainOf(x.X) + "." + canonField(st.Field(x.Field))
	case *ssa.IndexAddr:
		return chainOf(x.X) + "[*]"
	case *ssa.Index:
		return chainOf(x.X) + "[*]"
	case *ssa.Slice:
		return chainOf(x.X) + "[:]"
	case *ssa.UnOp:
		if x.Op.String() == "*" {
			return "*(" + chainOf(x.X) + ")"
		}
		return x.Op.String() + "(" + chainOf(x.X) + ")"
	case *ssa.Global:
		return "G:" + x.Name()
	case *ssa.Parameter:
		return "P:" + x.Name()
	case *ssa.Alloc:
		return "alloc:" + x.Comment
	case *ssa.FreeVar:
		return "FV:" + x.Name()
	case *ssa.Phi:
		return "phi(" + x.Comment + ")"
	case *ssa.Call:
		return "call:" + x.Call.Value.Name()
	case *ssa.ChangeType:
		return chainOf(x.X)
	case *ssa.Convert:
		return chainOf(x.X)
	case *ssa.MakeInterface:
		return "iface(" + chainOf(x.X) + ")"
	case *ssa.Extract:
		return fmt.Sprintf("%s#%d", chainOf(x.Tuple), x.Index)
	case *ssa.Lookup:
		return chainOf(x.X) + "[k]"
	}
	return fmt.Sprintf("%T", v)
}

func (a *e4) sink(fn *ssa.Function, ins ssa.Instruction, what string, addr ssa.Value) {
	chain := chainOf(addr)
	key := fmt.Sprintf("%s | %s | %s", a.w.FuncName(fn), what, chain)
	a.sinks[key] = e4sink{Fn: fn, Instr: ins, Kind: what, Addr: addr, Chain: chain}
}

// external packages whose functions do not write through (or retain) their reference arguments
var readOnlyExt = map[string]bool{"fmt": true, "strings": true, "strconv": true, "io": true, "bufio": true, "math": true,
	"os": true, "time": true, "go/token": true, "text/scanner": true, "flag": true, "errors": true}

func (a *e4) fn(f *ssa.Function) {
	for _, b := range f.Blocks {
		for _, ins := range b.Instrs {
			switch x := ins.(type) {
			case *ssa.FieldAddr:
				a.set(x, a.get(x.X))
			case *ssa.IndexAddr:
				a.set(x, a.get(x.X))
			case *ssa.Slice:
				a.set(x, a.get(x.X))
			case *ssa.Field:
				a.set(x, a.get(x.X))
			case *ssa.Index:
				a.set(x, a.get(x.X))
			case *ssa.Lookup:
				a.set(x, e4minus1(a.get(x.X)))
			case *ssa.UnOp:
				if x.Op.String() == "*" {
					if g, ok := x.X.(*ssa.Global); ok && a.inertGlobal[g] != "" {
						break
					}
					a.set(x, e4minus1(a.get(x.X)))
				}
				// "<-": a received value was handed over by the sender: fresh by transfer
			case *ssa.Phi:
				d := e4inf
				for _, e := range x.Edges {
					d = e4min(d, a.get(e))
				}
				a.set(x, d)
			case *ssa.ChangeType:
				a.set(x, a.get(x.X))
			case *ssa.Convert:
				a.set(x, a.get(x.X))
			case *ssa.ChangeInterface:
				a.set(x, a.get(x.X))
			case *ssa.MakeInterface:
				a.set(x, a.get(x.X))
			case *ssa.TypeAssert:
				a.set(x, a.get(x.X))
			case *ssa.SliceToArrayPointer:
				a.set(x, a.get(x.X))
			case *ssa.Extract:
				if call, ok := x.Tuple.(*ssa.Call); ok && len(a.w.Callees[call]) > 0 {
					for _, callee := range a.w.Callees[call] {
						for _, b := range callee.Blocks {
							for _, ins := range b.Instrs {
								if r, ok := ins.(*ssa.Return); ok && x.Index < len(r.Results) {
									a.set(x, a.get(r.Results[x.Index]))
								}
							}
						}
					}
				} else {
					a.set(x, a.get(x.Tuple))
				}
			case *ssa.MakeClosure:
				d := e4inf
				fnc := x.Fn.(*ssa.Function)
				for i, bnd := range x.Bindings {
					d = e4min(d, a.get(bnd))
					a.set(fnc.FreeVars[i], a.get(bnd))
				}
				a.set(x, d)
			case *ssa.Store:
				da := a.get(x.Addr)
				if da == 0 {
					a.sink(f, ins, "store", x.Addr)
				}
				dv := a.get(x.Val)
				if dv < e4inf {
					var rs []ssa.Value
					e4roots(x.Addr, map[ssa.Value]bool{}, &rs)
					for _, r := range rs {
						a.lowerContent(r, dv)
					}
				}
			case *ssa.MapUpdate:
				if a.get(x.Map) == 0 {
					a.sink(f, ins, "mapupdate", x.Map)
				}
				dv := e4min(a.get(x.Value), a.get(x.Key))
				if dv < e4inf {
					var rs []ssa.Value
					e4roots(x.Map, map[ssa.Value]bool{}, &rs)
					for _, r := range rs {
						a.lowerContent(r, dv)
					}
				}
			case *ssa.Send:
				// handing a protected reference to another goroutine: treated like an external call argument
				if a.get(x.X) == 0 && refBearing(x.X.Type()) {
					a.sink(f, ins, "send", x.X)
				}
			case ssa.CallInstruction:
				a.call(f, x)
			case *ssa.Return:
				if f.Object() != nil && f.Object().Exported() {
					for i, rv := range x.Results {
						if !refBearing(rv.Type()) {
							continue
						}
						if _, isErr := rv.Type().Underlying().(*types.Interface); isErr && types.Identical(rv.Type(), types.Universe.Lookup("error").Type()) {
							continue // error values are immutable by convention
						}
						if a.get(rv) == 0 {
							key := fmt.Sprintf("%s | return#%d | %s", a.w.FuncName(f), i, chainOf(rv))
							a.leaks[key] = e4sink{Fn: f, Instr: ins, Kind: "return", Addr: rv, Chain: chainOf(rv)}
						}
					}
				}
			}
		}
	}
}

func (a *e4) call(f *ssa.Function, ci ssa.CallInstruction) {
	c := ci.Common()
	res := ci.Value()
	if b, ok := c.Value.(*ssa.Builtin); ok {
		switch b.Name() {
		case "append":
			ds := a.get(c.Args[0])
			if ds == 0 && a.appendIsSink {
				a.sink(f, ci, "append", c.Args[0])
			}
			d := ds
			if len(c.Args) > 1 && elemRef(c.Args[1].Type()) {
				d = e4min(d, e4plus(e4minus1(a.get(c.Args[1])), 1))
				if a.get(c.Args[1]) < e4inf {
					var rs []ssa.Value
					e4roots(c.Args[0], map[ssa.Value]bool{}, &rs)
					for _, r := range rs {
						a.lowerContent(r, e4minus1(a.get(c.Args[1])))
					}
				}
			}
			if res != nil {
				a.set(res, d)
			}
		case "copy":
			if a.get(c.Args[0]) == 0 {
				a.sink(f, ci, "copy-dst", c.Args[0])
			}
			ds := a.get(c.Args[1])
			if ds < e4inf && elemRef(c.Args[1].Type()) {
				var rs []ssa.Value
				e4roots(c.Args[0], map[ssa.Value]bool{}, &rs)
				for _, r := range rs {
					a.lowerContent(r, e4minus1(ds))
				}
			}
		case "delete":
			if a.get(c.Args[0]) == 0 {
				a.sink(f, ci, "delete", c.Args[0])
			}
		case "clear":
			if a.get(c.Args[0]) == 0 {
				a.sink(f, ci, "clear", c.Args[0])
			}
		}
		return
	}
	callees := a.w.Callees[ci]
	if len(callees) == 0 {
		callee := c.StaticCallee()
		pkg := ""
		name := c.Value.Name()
		if callee != nil && callee.Pkg != nil {
			pkg = callee.Pkg.Pkg.Path()
		} else if callee != nil && callee.Object() != nil && callee.Object().Pkg() != nil {
			pkg = callee.Object().Pkg().Path()
		}
		if c.IsInvoke() && c.Method != nil && c.Method.Pkg() != nil {
			pkg = c.Method.Pkg().Path()
			name = c.Method.Name()
		}
		d := e4inf
		args := c.Args
		if c.IsInvoke() {
			args = append([]ssa.Value{c.Value}, c.Args...)
		}
		for _, arg := range args {
			da := a.get(arg)
			d = e4min(d, da)
			if da == 0 && !readOnlyExt[pkg] && refBearing(arg.Type()) {
				a.sink(f, ci, "extcall:"+pkg+"."+name, arg)
			}
			// callbacks: a module type converted to an interface and handed to external code has its methods called
			if mi, ok := arg.(*ssa.MakeInterface); ok {
				ms := a.w.Prog.MethodSets.MethodSet(mi.X.Type())
				for i := 0; i < ms.Len(); i++ {
					m := a.w.Prog.MethodValue(ms.At(i))
					if m == nil {
						continue
					}
					m = a.w.unwrap(m)
					if a.w.InModule(m) && len(m.Params) > 0 {
						a.set(m.Params[0], a.get(mi.X))
					}
				}
			}
		}
		if res != nil {
			a.set(res, d)
		}
		return
	}
	for _, callee := range callees {
		args := c.Args
		params := callee.Params
		if c.IsInvoke() {
			args = append([]ssa.Value{c.Value}, c.Args...)
		}
		for i, p := range params {
			if i < len(args) {
				a.set(p, a.get(args[i]))
			}
		}
		if res != nil {
			for _, b := range callee.Blocks {
				for _, ins := range b.Instrs {
					if r, ok := ins.(*ssa.Return); ok && len(r.Results) == 1 {
						a.set(res, a.get(r.Results[0]))
					}
				}
			}
		}
	}
}

func (a *e4) run(fns []*ssa.Function) {
	a.d = map[ssa.Value]int{}
	a.content = map[ssa.Value]int{}
	a.sinks = map[string]e4sink{}
	a.leaks = map[string]e4sink{}
	a.fns = fns
	for {
		a.changed = false
		for _, f := range fns {
			a.fn(f)
		}
		a.Iter++
		if !a.changed || a.Iter > 200 {
			break
		}
	}
}

func (a *e4) sortedSinks() []string {
	var keys []string
	for k := range a.sinks {
		keys = append(keys, k)
	}
	sort.Strings(keys)
	return keys
}

func (a *e4) sortedLeaks() []string {
	var keys []string
	for k := range a.leaks {
		keys = append(keys, k)
	}
	sort.Strings(keys)
	return keys
}

// chainFields returns the field names on a chain ("P:pb.Clauses[*]" -> [Clauses]).
func chainFields(chain string) []string {
	var out []string
	for _, part := range strings.FieldsFunc(chain, func(r rune) bool {
		return r == '.' || r == '[' || r == ']' || r == '(' || r == ')' || r == '*' || r == ':'
	}) {
		out = append(out, part)
	}
	return out
}
