package main

import (
	"fmt"
	"strings"

	"github.com/crillab/gophersat/solver"
)

func main() {
	in := "min: 1 x1 +2 x2 ;\n1 x1 +1 x2 >= 1 ;\n"
	pb, err := solver.ParseOPB(strings.NewReader(in))
	if err != nil {
		fmt.Println("unexpected: input rejected:", err)
		return
	}
	out := pb.PBString()
	fmt.Printf("printed:\n%s", out)
	_, err = solver.ParseOPB(strings.NewReader(out))
	fmt.Println("re-parse error:", err)
}
