// Witness for known finding D30 (property C14): with the cutting-planes strategy the analyser walks the trail backwards
// without a lower bound and panics with index out of range [-1] on
//   -x2 +x1 +x3 +x4 >= 3 ; -x3 -x4 -x1 >= 2 ; min: 3 ~x1 +1 x2
// (the constraints are unsatisfiable: with the strategy off the answer is Unsat, as it should be).
package main

import (
	"fmt"

	"github.com/crillab/gophersat/solver"
)

func run(cp bool) {
	defer func() {
		if r := recover(); r != nil {
			fmt.Println("cutting planes =", cp, "PANIC:", r)
		}
	}()
	pb := solver.ParsePBConstrs([]solver.PBConstr{
		solver.GtEq([]int{-2, 1, 3, 4}, []int{1, 1, 1, 1}, 3),
		solver.GtEq([]int{-3, -4, -1}, []int{1, 1, 1}, 2),
	})
	pb.SetCostFunc([]solver.Lit{solver.IntToLit(-1), solver.IntToLit(2)}, []int{3, 1})
	s := solver.New(pb)
	s.CuttingPlanes = cp
	res := s.Optimal(nil, nil)
	fmt.Println("cutting planes =", cp, "->", res.Status, res.Weight, res.Model)
}

func main() {
	run(false)
	run(true)
}
