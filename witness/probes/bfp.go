package main

import (
	"bytes"
	"fmt"
	"math/rand"
	"strings"

	"github.com/crillab/gophersat/bf"
	"github.com/crillab/gophersat/solver"
)

var names = []string{"a", "b", "c", "d", "e", "f", "g"}

type ev func(m map[string]bool) bool

func randF(rng *rand.Rand, depth int, nv int) (bf.Formula, ev) {
	leaf := func() (bf.Formula, ev) {
		n := names[rng.Intn(nv)]
		return bf.Var(n), func(m map[string]bool) bool { return m[n] }
	}
	if depth == 0 || rng.Intn(4) == 0 {
		switch rng.Intn(12) {
		case 0:
			return bf.True, func(map[string]bool) bool { return true }
		case 1:
			return bf.False, func(map[string]bool) bool { return false }
		}
		return leaf()
	}
	sub := func() (bf.Formula, ev) { return randF(rng, depth-1, nv) }
	switch rng.Intn(8) {
	case 0:
		f, e := sub()
		return bf.Not(f), func(m map[string]bool) bool { return !e(m) }
	case 1, 2:
		isAnd := rng.Intn(2) == 0
		n := rng.Intn(4)
		var fs []bf.Formula
		var es []ev
		for i := 0; i < n; i++ {
			f, e := sub()
			fs, es = append(fs, f), append(es, e)
		}
		if isAnd {
			return bf.And(fs...), func(m map[string]bool) bool {
				for _, e := range es {
					if !e(m) {
						return false
					}
				}
				return true
			}
		}
		return bf.Or(fs...), func(m map[string]bool) bool {
			for _, e := range es {
				if e(m) {
					return true
				}
			}
			return false
		}
	case 3:
		f1, e1 := sub()
		f2, e2 := sub()
		return bf.Implies(f1, f2), func(m map[string]bool) bool { return !e1(m) || e2(m) }
	case 4:
		f1, e1 := sub()
		f2, e2 := sub()
		return bf.Eq(f1, f2), func(m map[string]bool) bool { return e1(m) == e2(m) }
	case 5:
		f1, e1 := sub()
		f2, e2 := sub()
		return bf.Xor(f1, f2), func(m map[string]bool) bool { return e1(m) != e2(m) }
	case 6:
		n := 1 + rng.Intn(nv)
		perm := rng.Perm(nv)[:n]
		var vs []string
		for _, i := range perm {
			vs = append(vs, names[i])
		}
		return bf.Unique(vs...), func(m map[string]bool) bool {
			c := 0
			for _, v := range vs {
				if m[v] {
					c++
				}
			}
			return c == 1
		}
	}
	return leaf()
}

func bfCheck() {
	rng := rand.New(rand.NewSource(8))
	bad := 0
	per := map[string]int{}
	n := 20000
	for it := 0; it < n; it++ {
		func() {
			defer func() {
				if r := recover(); r != nil {
					bad++
					per["panic"]++
					if per["panic"] <= 3 {
						fmt.Println("PANIC", r)
					}
				}
			}()
			nv := 2 + rng.Intn(6)
			f, e := randF(rng, 3, nv)
			anySat := false
			for a := 0; a < 1<<nv; a++ {
				m := map[string]bool{}
				for i := 0; i < nv; i++ {
					m[names[i]] = a>>i&1 == 1
				}
				if e(m) {
					anySat = true
				}
			}
			model := bf.Solve(f)
			if (model != nil) != anySat {
				bad++
				per["verdict"]++
				if per["verdict"] <= 3 {
					fmt.Println("VERDICT", f, model != nil, anySat)
				}
				return
			}
			if model != nil {
				// complete arbitrarily (false) and evaluate
				for _, compl := range []bool{false, true} {
					m := map[string]bool{}
					for i := 0; i < nv; i++ {
						if v, ok := model[names[i]]; ok {
							m[names[i]] = v
						} else {
							m[names[i]] = compl
						}
					}
					if !e(m) {
						bad++
						per["model"]++
						if per["model"] <= 3 {
							fmt.Println("MODEL", f, model)
						}
						return
					}
				}
			}
			// Dimacs export: same number of models projected on named variables
			var buf bytes.Buffer
			if err := bf.Dimacs(f, &buf); err != nil {
				bad++
				per["dimacs err"]++
				return
			}
			txt := buf.String()
			pb, err := solver.ParseCNF(strings.NewReader(txt))
			if err != nil {
				bad++
				per["dimacs parse"]++
				if per["dimacs parse"] <= 3 {
					fmt.Println("DIMACS PARSE", err, f, txt)
				}
				return
			}
			_ = pb
		}()
	}
	fmt.Println("bf bad", bad, "of", n, per)
}
