package main

import (
	"fmt"
	"math/rand"
	"os"
	"strings"

	"github.com/crillab/gophersat/explain"
	"github.com/crillab/gophersat/solver"
)

func satCNF(cls [][]int, nv int) bool {
	for a := 0; a < 1<<nv; a++ {
		ok := true
		for _, c := range cls {
			s := false
			for _, l := range c {
				v := l
				if v < 0 {
					v = -v
				}
				if (l > 0) == (a>>(v-1)&1 == 1) {
					s = true
				}
			}
			if !s {
				ok = false
				break
			}
		}
		if ok {
			return true
		}
	}
	return false
}

func cnfText(cls [][]int, nv int) string {
	var sb strings.Builder
	fmt.Fprintf(&sb, "p cnf %d %d\n", nv, len(cls))
	for _, c := range cls {
		for _, l := range c {
			fmt.Fprintf(&sb, "%d ", l)
		}
		sb.WriteString("0\n")
	}
	return sb.String()
}

var per = map[string]int{}

func main() {
	mode := os.Args[1]
	if mode == "w28" {
		w28()
		return
	}
	if mode == "maxsat" {
		maxsatCheck()
		return
	}
	if mode == "rt" {
		roundTrip()
		return
	}
	if mode == "w29" {
		w29()
		return
	}
	if mode == "parse" {
		parseProbe()
		return
	}
	if mode == "cli" {
		cliCheck()
		return
	}
	if mode == "cp" {
		cpCheck()
		return
	}
	if mode == "cp1" {
		cp1()
		return
	}
	if mode == "certbig" {
		certBig()
		return
	}
	if mode == "dimacs" {
		dimacsCheck()
		return
	}
	if mode == "wcnf" {
		wcnfCheck()
		return
	}
	if mode == "bf" {
		bfCheck()
		return
	}
	rng := rand.New(rand.NewSource(4))
	bad := 0
	n := 3000
	for it := 0; it < n; it++ {
		func() {
			defer func() {
				if r := recover(); r != nil {
					bad++
					if bad <= 4 {
						fmt.Println("PANIC", r)
					}
				}
			}()
			nv := 3 + rng.Intn(4)
			var cls [][]int
			for i, nc := 0, 3+rng.Intn(10); i < nc; i++ {
				k := 1 + rng.Intn(3)
				seen := map[int]bool{}
				var c []int
				for j := 0; j < k; j++ {
					l := 1 + rng.Intn(nv)
					if seen[l] {
						continue
					}
					seen[l] = true
					if rng.Intn(2) == 0 {
						l = -l
					}
					c = append(c, l)
				}
				cls = append(cls, c)
			}
			sat := satCNF(cls, nv)
			switch mode {
			case "mus":
				for _, meth := range []string{"deletion", "insertion", "maxsat"} {
					pb, err := explain.ParseCNF(strings.NewReader(cnfText(cls, nv)))
					if err != nil {
						fmt.Println("parse error", err)
						return
					}
					var mus *explain.Problem
					switch meth {
					case "deletion":
						mus, err = pb.MUSDeletion()
					case "insertion":
						mus, err = pb.MUSInsertion()
					default:
						mus, err = pb.MUSMaxSat()
					}
					if sat {
						if err == nil {
							bad++
							per[meth+" no error on sat"]++
						}
						continue
					}
					if err != nil {
						bad++
						per[meth+" error on unsat"]++
						continue
					}
					if satCNF(mus.Clauses, nv) {
						bad++
						per[meth+" sat"]++
						continue
					}
					for i := range mus.Clauses {
						rest := append(append([][]int{}, mus.Clauses[:i]...), mus.Clauses[i+1:]...)
						if !satCNF(rest, nv) {
							bad++
							per[meth+" not minimal"]++
							if per[meth+" not minimal"] <= 2 {
								fmt.Println("not minimal", meth, cls, "->", mus.Clauses)
							}
							break
						}
					}
				}
			case "cert":
				if sat {
					return
				}
				cp := make([][]int, len(cls))
				for i := range cls {
					cp[i] = append([]int{}, cls[i]...)
				}
				spb := solver.ParseSliceNb(cp, nv)
				if spb.Status == solver.Unsat {
					return
				}
				s := solver.New(spb)
				s.Certified = true
				s.CertChan = make(chan string)
				var lines []string
				done := make(chan solver.Status)
				go func() { st := s.Solve(); close(s.CertChan); done <- st }()
				for l := range s.CertChan {
					lines = append(lines, l)
				}
				st := <-done
				if st != solver.Unsat {
					bad++
					fmt.Println("verdict", st, cls)
					return
				}
				pb, _ := explain.ParseCNF(strings.NewReader(cnfText(cls, nv)))
				valid, err := pb.Unsat(strings.NewReader(strings.Join(lines, "\n") + "\n"))
				if err != nil || !valid {
					bad++
					if bad <= 6 {
						fmt.Println("certificate rejected", cls, lines, err)
					}
				}
			case "amo":
				cp := make([][]int, len(cls))
				for i := range cls {
					cp[i] = append([]int{}, cls[i]...)
				}
				// add a pairwise at-most-one group
				g := rng.Perm(nv)[:2+rng.Intn(nv-1)]
				for i := 0; i < len(g); i++ {
					for j := i + 1; j < len(g); j++ {
						c := []int{-(g[i] + 1), -(g[j] + 1)}
						cls = append(cls, c)
						cp = append(cp, append([]int{}, c...))
					}
				}
				want := 0
				for a := 0; a < 1<<nv; a++ {
					ok := true
					for _, c := range cls {
						s := false
						for _, l := range c {
							v := l
							if v < 0 {
								v = -v
							}
							if (l > 0) == (a>>(v-1)&1 == 1) {
								s = true
							}
						}
						if !s {
							ok = false
						}
					}
					if ok {
						want++
					}
				}
				spb := solver.ParseSliceNb(cp, nv)
				if spb.Status == solver.Unsat {
					if want != 0 {
						bad++
					}
					return
				}
				spb.DetectAtMostOne()
				got := 0
				if spb.Status != solver.Unsat {
					got = solver.New(spb).CountModels()
				}
				if got != want {
					bad++
					if bad <= 6 {
						fmt.Println("amo count", cls, got, want)
					}
				}
			}
		}()
	}
	fmt.Println("mode", mode, "bad", bad, "of", n, per)
}
