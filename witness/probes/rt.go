package main

import (
	"fmt"
	"math/rand"
	"strings"

	"github.com/crillab/gophersat/solver"
)

func countOf(pb *solver.Problem) (n int, ok bool) {
	defer func() {
		if recover() != nil {
			ok = false
		}
	}()
	if pb.Status == solver.Unsat {
		return 0, true
	}
	return solver.New(pb).CountModels(), true
}

func roundTrip() {
	rng := rand.New(rand.NewSource(12))
	per := map[string]int{}
	n := 6000
	for it := 0; it < n; it++ {
		func() {
			defer func() {
				if r := recover(); r != nil {
					per["panic"]++
					if per["panic"] <= 3 {
						fmt.Println("PANIC", r)
					}
				}
			}()
			nv := 3 + rng.Intn(5)
			mk := func() *solver.Problem {
				return nil
			}
			_ = mk
			// random PB constraints (all variables used so that counts are comparable)
			type pc struct {
				l, w []int
				k    int
			}
			var cs []pc
			used := map[int]bool{}
			for i, nc := 0, 1+rng.Intn(5); i < nc || len(used) < nv; i++ {
				k := 1 + rng.Intn(nv)
				var l, w []int
				tot := 0
				for _, v := range rng.Perm(nv)[:k] {
					used[v] = true
					x := v + 1
					if rng.Intn(2) == 0 {
						x = -x
					}
					ww := 1 + rng.Intn(4)
					l, w, tot = append(l, x), append(w, ww), tot+ww
				}
				cs = append(cs, pc{l, w, 1 + rng.Intn(tot)})
			}
			build := func() *solver.Problem {
				var constrs []solver.PBConstr
				for _, c := range cs {
					constrs = append(constrs, solver.GtEq(append([]int{}, c.l...), append([]int{}, c.w...), c.k))
				}
				return solver.ParsePBConstrs(constrs)
			}
			want := 0
			for a := 0; a < 1<<nv; a++ {
				ok := true
				for _, c := range cs {
					s := 0
					for i, x := range c.l {
						v := x
						if v < 0 {
							v = -v
						}
						if (x > 0) == (a>>(v-1)&1 == 1) {
							s += c.w[i]
						}
					}
					if s < c.k {
						ok = false
					}
				}
				if ok {
					want++
				}
			}
			pb := build()
			if pb.NbVars != nv {
				return
			}
			got, ok := countOf(build())
			if !ok || got != want {
				per["direct count"]++
				if per["direct count"] <= 3 {
					fmt.Println("DIRECT", cs, got, want)
				}
				return
			}
			txt := pb.PBString()
			pb2, err := solver.ParseOPB(strings.NewReader(txt))
			if err != nil {
				per["reparse error"]++
				if per["reparse error"] <= 3 {
					fmt.Println("REPARSE", err, "\n"+txt)
				}
				return
			}
			got2, ok := countOf(pb2)
			if pb2.NbVars != nv || !ok || got2 != want {
				per["roundtrip count"]++
				if per["roundtrip count"] <= 3 {
					fmt.Println("ROUNDTRIP", cs, "nbvars", pb2.NbVars, nv, got2, want, "\n"+txt)
				}
			}
			// solver-level rendering after a solve
			s := solver.New(build())
			if s.Solve() == solver.Sat {
				txt3 := s.PBString()
				pb3, err := solver.ParseOPB(strings.NewReader(txt3))
				if err != nil {
					per["solver reparse error"]++
					if per["solver reparse error"] <= 3 {
						fmt.Println("SOLVER REPARSE", err, "\n"+txt3)
					}
					return
				}
				got3, ok := countOf(pb3)
				if !ok || got3 != want || pb3.NbVars != nv {
					per["solver roundtrip count"]++
					if per["solver roundtrip count"] <= 3 {
						fmt.Println("SOLVER ROUNDTRIP", cs, pb3.NbVars, nv, got3, want, "\n"+txt3)
					}
				}
			}
		}()
	}
	fmt.Println("roundtrip", n, per)
}
