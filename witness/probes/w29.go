package main

import (
	"fmt"
	"strings"

	"github.com/crillab/gophersat/solver"
)

func w29() {
	for _, txt := range []string{"1 x1 >= 2 ;\n", "* #variable= 3 #constraint= 1\n1 x1 >= 2 ;\n", "1 x1 >= 1 ;\n1 ~x1 >= 1 ;\n"} {
		func() {
			defer func() {
				if r := recover(); r != nil {
					fmt.Println("PANIC", r)
				}
			}()
			pb, err := solver.ParseOPB(strings.NewReader(txt))
			if err != nil {
				fmt.Println("err", err)
				return
			}
			fmt.Println(strings.ReplaceAll(txt, "\n", " / "), "=> status", pb.Status, "nbvars", pb.NbVars)
		}()
	}
	pb, err := solver.ParseCNF(strings.NewReader("p cnf 3 1\n0\n"))
	fmt.Println("cnf with empty clause:", pb.Status, pb.NbVars, err)
	pb2 := solver.ParseSlice([][]int{{1}, {-1}, {2, 3}})
	fmt.Printf("unsat problem prints CNF:\n%s--- PB:\n%s---\n", pb2.CNF(), pb2.PBString())
}
