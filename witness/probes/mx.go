package main

import (
	"fmt"
	"math/rand"
	"strings"

	"github.com/crillab/gophersat/maxsat"
	"github.com/crillab/gophersat/solver"
)

type mcons struct {
	lits   []int
	coeffs []int
	k      int
	w      int
}

func mval(c mcons, a int) bool {
	sum := 0
	for i, l := range c.lits {
		v := l
		if v < 0 {
			v = -v
		}
		if (l > 0) == (a>>(v-1)&1 == 1) {
			if c.coeffs == nil {
				sum++
			} else {
				sum += c.coeffs[i]
			}
		}
	}
	return sum >= c.k
}

func maxsatCheck() {
	rng := rand.New(rand.NewSource(6))
	per := map[string]int{}
	n := 15000
	for it := 0; it < n; it++ {
		func() {
			defer func() {
				if r := recover(); r != nil {
					per["panic"]++
					if per["panic"] <= 3 {
						fmt.Println("PANIC", r)
					}
				}
			}()
			nv := 2 + rng.Intn(5)
			var cs []mcons
			var constrs []maxsat.Constr
			for i, nc := 0, 1+rng.Intn(7); i < nc; i++ {
				k := 1 + rng.Intn(nv)
				perm := rng.Perm(nv)[:k]
				var ls []int
				var ml []maxsat.Lit
				for _, v := range perm {
					name := fmt.Sprintf("x%d", v+1)
					if rng.Intn(2) == 0 {
						ls = append(ls, -(v + 1))
						ml = append(ml, maxsat.Not(name))
					} else {
						ls = append(ls, v+1)
						ml = append(ml, maxsat.Var(name))
					}
				}
				c := mcons{lits: ls, k: 1}
				kind := rng.Intn(3)
				if kind == 1 { // cardinality
					c.k = 1 + rng.Intn(len(ls))
				} else if kind == 2 { // PB
					tot := 0
					for range ls {
						w := 1 + rng.Intn(4)
						c.coeffs = append(c.coeffs, w)
						tot += w
					}
					c.k = 1 + rng.Intn(tot)
				}
				if rng.Intn(3) != 0 {
					c.w = 1 + rng.Intn(5)
				}
				cs = append(cs, c)
				var coeffs []int
				if c.coeffs != nil {
					coeffs = append([]int{}, c.coeffs...)
				}
				constrs = append(constrs, maxsat.Constr{Lits: ml, Coeffs: coeffs, AtLeast: c.k, Weight: c.w})
			}
			best := -1
			for a := 0; a < 1<<nv; a++ {
				cost, ok := 0, true
				for _, c := range cs {
					if !mval(c, a) {
						if c.w == 0 {
							ok = false
							break
						}
						cost += c.w
					}
				}
				if ok && (best < 0 || cost < best) {
					best = cost
				}
			}
			pb := maxsat.New(constrs...)
			model, cost := pb.Solve()
			if model == nil {
				if best >= 0 {
					per["wrong unsat"]++
					if per["wrong unsat"] <= 3 {
						fmt.Println("WRONG UNSAT", cs, best)
					}
				}
				return
			}
			if best < 0 {
				per["wrong sat"]++
				return
			}
			a := 0
			for v := 1; v <= nv; v++ {
				if model[fmt.Sprintf("x%d", v)] {
					a |= 1 << (v - 1)
				}
			}
			real, ok := 0, true
			for _, c := range cs {
				if !mval(c, a) {
					if c.w == 0 {
						ok = false
					}
					real += c.w
				}
			}
			for name := range model {
				if !strings.HasPrefix(name, "x") {
					per["leak"]++
				}
			}
			if !ok || real != cost || cost != best {
				per["bad optimum"]++
				if per["bad optimum"] <= 4 {
					fmt.Println("BAD", cs, "got", cost, "real", real, "hardok", ok, "want", best, model)
				}
			}
		}()
	}
	fmt.Println("maxsat", n, per)
	_ = solver.Sat
}
