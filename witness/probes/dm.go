package main

import (
	"bytes"
	"fmt"
	"math/rand"
	"strconv"
	"strings"

	"github.com/crillab/gophersat/bf"
	"github.com/crillab/gophersat/solver"
)

func dimacsCheck() {
	rng := rand.New(rand.NewSource(55))
	per := map[string]int{}
	n := 6000
	for it := 0; it < n; it++ {
		func() {
			defer func() {
				if r := recover(); r != nil {
					per["panic"]++
					if per["panic"] <= 2 {
						fmt.Println("PANIC", r)
					}
				}
			}()
			nv := 2 + rng.Intn(3) // <= 4 variables: no grid encoding
			f, e := randF(rng, 3, nv)
			var buf bytes.Buffer
			if err := bf.Dimacs(f, &buf); err != nil {
				per["error"]++
				return
			}
			txt := buf.String()
			// name comments
			idx := map[string]int{}
			for _, l := range strings.Split(txt, "\n") {
				if strings.HasPrefix(l, "c ") {
					kv := strings.SplitN(l[2:], "=", 2)
					if len(kv) == 2 {
						x, err := strconv.Atoi(kv[1])
						if err != nil {
							per["bad comment"]++
						}
						idx[kv[0]] = x
					}
				}
			}
			pb, err := solver.ParseCNF(strings.NewReader(txt))
			if err != nil {
				per["parse"]++
				if per["parse"] <= 2 {
					fmt.Println("PARSE", err, f, "\n"+txt)
				}
				return
			}
			seenIdx := map[int]bool{}
			for name, x := range idx {
				if x < 1 || x > pb.NbVars || seenIdx[x] {
					per["index range/dup"]++
					if per["index range/dup"] <= 2 {
						fmt.Println("INDEX", name, x, pb.NbVars, "\n"+txt)
					}
				}
				seenIdx[x] = true
			}
			// models of the export projected on named variables
			proj := map[string]bool{}
			if pb.Status != solver.Unsat {
				s := solver.New(pb)
				ch := make(chan []bool)
				go s.Enumerate(ch, nil)
				for m := range ch {
					var sb strings.Builder
					for i := 0; i < nv; i++ {
						x, ok := idx[names[i]]
						switch {
						case !ok:
							sb.WriteByte('?')
						case m[x-1]:
							sb.WriteByte('1')
						default:
							sb.WriteByte('0')
						}
					}
					proj[sb.String()] = true
				}
			}
			// every formula model must match some projection (unnamed variables unconstrained) and every projection
			// must be completable to formula models for all values of the unnamed variables
			for a := 0; a < 1<<nv; a++ {
				m := map[string]bool{}
				for i := 0; i < nv; i++ {
					m[names[i]] = a>>i&1 == 1
				}
				matches := false
				for p := range proj {
					ok := true
					for i := 0; i < nv; i++ {
						if p[i] == '?' {
							continue
						}
						if (p[i] == '1') != m[names[i]] {
							ok = false
						}
					}
					if ok {
						matches = true
					}
				}
				if e(m) != matches {
					per["models differ"]++
					if per["models differ"] <= 3 {
						fmt.Println("MODELS", f, m, "formula", e(m), "export", matches, "\n"+txt)
					}
					return
				}
			}
		}()
	}
	fmt.Println("dimacs", n, per)
}
