package main

import (
	"fmt"
	"math/rand"
	"os"
	"os/exec"
	"strconv"
	"strings"

	"github.com/crillab/gophersat/explain"
)

func runCLI(args ...string) (string, int) {
	cmd := exec.Command("/tmp/cli/gophersat", args...)
	out, err := cmd.Output()
	code := 0
	if err != nil {
		if ee, ok := err.(*exec.ExitError); ok {
			code = ee.ExitCode()
		} else {
			code = -1
		}
	}
	return string(out), code
}

func cliCheck() {
	rng := rand.New(rand.NewSource(21))
	per := map[string]int{}
	note := func(k string, args ...interface{}) {
		per[k]++
		if per[k] <= 2 {
			fmt.Println(append([]interface{}{k}, args...)...)
		}
	}
	n := 400
	for it := 0; it < n; it++ {
		nv := 3 + rng.Intn(6)
		var cls [][]int
		for i, nc := 0, 2+rng.Intn(nv*3); i < nc; i++ {
			k := 1 + rng.Intn(3)
			var c []int
			for j := 0; j < k; j++ {
				l := 1 + rng.Intn(nv)
				if rng.Intn(2) == 0 {
					l = -l
				}
				c = append(c, l)
			}
			cls = append(cls, c)
		}
		txt := cnfText(cls, nv)
		os.WriteFile("/tmp/cli/t.cnf", []byte(txt), 0644)
		want := 0
		for a := 0; a < 1<<nv; a++ {
			ok := true
			for _, c := range cls {
				s := false
				for _, l := range c {
					v := l
					if v < 0 {
						v = -v
					}
					if (l > 0) == (a>>(v-1)&1 == 1) {
						s = true
					}
				}
				if !s {
					ok = false
				}
			}
			if ok {
				want++
			}
		}
		out, code := runCLI("/tmp/cli/t.cnf")
		if code != 0 {
			note("exit code", code, txt)
		}
		var sline, vline string
		for _, l := range strings.Split(out, "\n") {
			if strings.HasPrefix(l, "s ") {
				sline = l
			}
			if strings.HasPrefix(l, "v ") {
				vline += l[2:] + " "
			}
		}
		if (sline == "s SATISFIABLE") != (want > 0) || (sline != "s SATISFIABLE" && sline != "s UNSATISFIABLE") {
			note("verdict", sline, want, txt)
		}
		if sline == "s SATISFIABLE" {
			m := map[int]bool{}
			for _, f := range strings.Fields(vline) {
				x, _ := strconv.Atoi(f)
				if x > 0 {
					m[x] = true
				} else if x < 0 {
					m[-x] = false
				}
			}
			if len(m) != nv {
				note("v line length", len(m), nv, vline)
			}
			for _, c := range cls {
				s := false
				for _, l := range c {
					v := l
					if v < 0 {
						v = -v
					}
					if (l > 0) == m[v] {
						s = true
					}
				}
				if !s {
					note("v line not a model", vline, txt)
					break
				}
			}
		}
		out, _ = runCLI("-count", "/tmp/cli/t.cnf")
		got := -1
		for _, l := range strings.Split(out, "\n") {
			if x, err := strconv.Atoi(strings.TrimSpace(l)); err == nil {
				got = x
			}
		}
		if got != want {
			note("count", got, want, txt)
		}
		if want == 0 {
			out, code = runCLI("-mus", "/tmp/cli/t.cnf")
			mp, err := explain.ParseCNF(strings.NewReader(out))
			if err != nil || code != 0 {
				note("mus output unparsable", err, code, out)
			} else {
				if satCNF(mp.Clauses, nv) {
					note("mus sat", out, txt)
				}
				for i := range mp.Clauses {
					rest := append(append([][]int{}, mp.Clauses[:i]...), mp.Clauses[i+1:]...)
					if !satCNF(rest, nv) {
						note("mus not minimal", out, txt)
						break
					}
				}
			}
			out, _ = runCLI("-certified", "/tmp/cli/t.cnf")
			var cert []string
			for _, l := range strings.Split(out, "\n") {
				if l == "" || strings.HasPrefix(l, "c ") || strings.HasPrefix(l, "s ") {
					continue
				}
				cert = append(cert, l)
			}
			pb, _ := explain.ParseCNF(strings.NewReader(txt))
			valid, err := pb.Unsat(strings.NewReader(strings.Join(cert, "\n") + "\n"))
			if err != nil || !valid {
				note("certificate invalid", err, cert, txt)
			}
		}
	}
	fmt.Println("cli", n, per)
}
