package main

import (
	"fmt"
	"math/rand"
	"strings"

	"github.com/crillab/gophersat/explain"
	"github.com/crillab/gophersat/solver"
)

func certBig() {
	rng := rand.New(rand.NewSource(77))
	per := map[string]int{}
	n := 1500
	unsat := 0
	for it := 0; it < n; it++ {
		nv := 10 + rng.Intn(8)
		nc := int(float64(nv) * (4.2 + rng.Float64()*1.5))
		var cls [][]int
		for i := 0; i < nc; i++ {
			var c []int
			for _, v := range rng.Perm(nv)[:3] {
				l := v + 1
				if rng.Intn(2) == 0 {
					l = -l
				}
				c = append(c, l)
			}
			cls = append(cls, c)
		}
		if satCNF(cls, nv) {
			continue
		}
		unsat++
		cp := make([][]int, len(cls))
		for i := range cls {
			cp[i] = append([]int{}, cls[i]...)
		}
		spb := solver.ParseSliceNb(cp, nv)
		if spb.Status == solver.Unsat {
			continue
		}
		s := solver.New(spb)
		s.Certified = true
		s.CertChan = make(chan string)
		var lines []string
		done := make(chan solver.Status)
		go func() { st := s.Solve(); close(s.CertChan); done <- st }()
		for l := range s.CertChan {
			lines = append(lines, l)
		}
		if st := <-done; st != solver.Unsat {
			per["verdict"]++
			continue
		}
		pb, _ := explain.ParseCNF(strings.NewReader(cnfText(cls, nv)))
		valid, err := pb.Unsat(strings.NewReader(strings.Join(lines, "\n") + "\n"))
		if err != nil || !valid {
			per["certificate rejected"]++
			if per["certificate rejected"] <= 2 {
				fmt.Println("REJECTED", len(lines), "lines", err)
			}
		}
		if len(lines) == 0 || lines[len(lines)-1] != "0" {
			per["no final empty clause"]++
		}
		// MUS on bigger instances
		for _, meth := range []string{"deletion", "insertion", "maxsat"} {
			pb2, _ := explain.ParseCNF(strings.NewReader(cnfText(cls, nv)))
			var mus *explain.Problem
			var err error
			switch meth {
			case "deletion":
				mus, err = pb2.MUSDeletion()
			case "insertion":
				mus, err = pb2.MUSInsertion()
			default:
				if it%5 != 0 {
					continue
				}
				mus, err = pb2.MUSMaxSat()
			}
			if err != nil {
				per[meth+" error"]++
				continue
			}
			if satCNF(mus.Clauses, nv) {
				per[meth+" sat"]++
				continue
			}
			for i := range mus.Clauses {
				rest := append(append([][]int{}, mus.Clauses[:i]...), mus.Clauses[i+1:]...)
				if !satCNF(rest, nv) {
					per[meth+" not minimal"]++
					break
				}
			}
		}
	}
	fmt.Println("cert/mus on", unsat, "unsat instances of", n, per)
}
