package main

import (
	"fmt"
	"strings"

	"github.com/crillab/gophersat/explain"
	"github.com/crillab/gophersat/solver"
)

func parseProbe() {
	texts := map[string]string{
		"plain":               "p cnf 3 2\n1 -2 0\n2 3 0\n",
		"clause over 2 lines": "p cnf 3 2\n1\n-2 0\n2 3 0\n",
		"two clauses 1 line":  "p cnf 3 2\n1 -2 0 2 3 0\n",
		"comment in middle":   "p cnf 3 2\n1 -2 0\nc hello\n2 3 0\n",
		"no final newline":    "p cnf 3 2\n1 -2 0\n2 3 0",
		"missing last 0":      "p cnf 3 2\n1 -2 0\n2 3\n",
		"leading spaces":      "p cnf 3 2\n  1 -2 0\n\t2 3 0\n",
		"percent trailer":     "p cnf 3 2\n1 -2 0\n2 3 0\n%\n0\n",
		"empty clause":        "p cnf 3 3\n1 -2 0\n0\n2 3 0\n",
		"unused var":          "p cnf 5 2\n1 -2 0\n2 3 0\n",
	}
	for name, t := range texts {
		func() {
			defer func() {
				if r := recover(); r != nil {
					fmt.Println(name, "PANIC", r)
				}
			}()
			pb, err := solver.ParseCNF(strings.NewReader(t))
			res := "err " + fmt.Sprint(err)
			if err == nil {
				if pb.Status == solver.Unsat {
					res = fmt.Sprintf("nv=%d UNSAT", pb.NbVars)
				} else {
					res = fmt.Sprintf("nv=%d models=%d", pb.NbVars, solver.New(pb).CountModels())
				}
			}
			epb, eerr := explain.ParseCNF(strings.NewReader(t))
			eres := "err " + fmt.Sprint(eerr)
			if eerr == nil {
				eres = fmt.Sprintf("nv=%d clauses=%v", epb.NbVars, epb.Clauses)
			}
			fmt.Printf("%-22s solver: %-22s explain: %s\n", name, res, eres)
		}()
	}
}
