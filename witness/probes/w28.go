package main

import (
	"fmt"

	"github.com/crillab/gophersat/bf"
)

func w28() {
	f := bf.And(bf.Not(bf.Unique("a", "b", "c", "d", "e")), bf.Var("a"), bf.Not(bf.Var("b")), bf.Not(bf.Var("c")), bf.Not(bf.Var("d")), bf.Not(bf.Var("e")))
	m := bf.Solve(f)
	fmt.Println("not(unique(a..e)) & a & -b & -c & -d & -e  (unsatisfiable: exactly a is true) =>", m)
	g := bf.And(bf.Not(bf.Unique("a", "b", "c", "d")), bf.Var("a"), bf.Not(bf.Var("b")), bf.Not(bf.Var("c")), bf.Not(bf.Var("d")))
	fmt.Println("same with four variables =>", bf.Solve(g))
}
