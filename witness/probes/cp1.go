package main

import (
	"fmt"

	"github.com/crillab/gophersat/solver"
)

func cp1() {
	constrs := []solver.PBConstr{solver.GtEq([]int{-2, 1, 3, 4}, []int{1, 1, 1, 1}, 3), solver.GtEq([]int{-3, -4, -1}, []int{1, 1, 1}, 2)}
	pb := solver.ParsePBConstrs(constrs)
	pb.SetCostFunc([]solver.Lit{solver.IntToLit(-1), solver.IntToLit(2)}, []int{3, 1})
	s := solver.New(pb)
	s.CuttingPlanes = true
	res := s.Optimal(nil, nil)
	fmt.Println(res)
}
