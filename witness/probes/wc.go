package main

import (
	"fmt"
	"math/rand"
	"strings"

	"github.com/crillab/gophersat/maxsat"
	"github.com/crillab/gophersat/solver"
)

func wcnfCheck() {
	rng := rand.New(rand.NewSource(91))
	per := map[string]int{}
	n := 10000
	for it := 0; it < n; it++ {
		func() {
			defer func() {
				if r := recover(); r != nil {
					per["panic"]++
					if per["panic"] <= 3 {
						fmt.Println("PANIC", r)
					}
				}
			}()
			nv := 2 + rng.Intn(5)
			top := 0
			useTop := rng.Intn(4) != 0
			type wc struct {
				w int
				c []int
			}
			var cs []wc
			sum := 0
			for i, nc := 0, 1+rng.Intn(8); i < nc; i++ {
				k := rng.Intn(4)
				if k == 0 && rng.Intn(3) != 0 {
					k = 1
				}
				var c []int
				for _, v := range rng.Perm(nv)[:min(k, nv)] {
					l := v + 1
					if rng.Intn(2) == 0 {
						l = -l
					}
					c = append(c, l)
				}
				w := 1 + rng.Intn(5)
				cs = append(cs, wc{w, c})
				sum += w
			}
			if useTop {
				top = sum + 1
				for i := range cs {
					if rng.Intn(3) == 0 {
						cs[i].w = top
					}
				}
			}
			var sb strings.Builder
			if useTop {
				fmt.Fprintf(&sb, "p wcnf %d %d %d\n", nv, len(cs), top)
			} else {
				fmt.Fprintf(&sb, "p wcnf %d %d\n", nv, len(cs))
			}
			for _, c := range cs {
				fmt.Fprintf(&sb, "%d ", c.w)
				for _, l := range c.c {
					fmt.Fprintf(&sb, "%d ", l)
				}
				sb.WriteString("0\n")
			}
			best := -1
			for a := 0; a < 1<<nv; a++ {
				cost, ok := 0, true
				for _, c := range cs {
					s := false
					for _, l := range c.c {
						v := l
						if v < 0 {
							v = -v
						}
						if (l > 0) == (a>>(v-1)&1 == 1) {
							s = true
						}
					}
					if !s {
						if useTop && c.w >= top {
							ok = false
						} else {
							cost += c.w
						}
					}
				}
				if ok && (best < 0 || cost < best) {
					best = cost
				}
			}
			s, err := maxsat.ParseWCNF(strings.NewReader(sb.String()))
			if err != nil {
				per["parse error"]++
				if per["parse error"] <= 3 {
					fmt.Println("PARSE", err, "\n"+sb.String())
				}
				return
			}
			res := s.Optimal(nil, nil)
			if res.Status != solver.Sat {
				if best >= 0 {
					per["wrong unsat"]++
					if per["wrong unsat"] <= 3 {
						fmt.Println("WRONG UNSAT", best, "\n"+sb.String())
					}
				}
				return
			}
			if best < 0 {
				per["wrong sat"]++
				return
			}
			if len(res.Model) != nv {
				per["model length"]++
				if per["model length"] <= 3 {
					fmt.Println("MODEL LENGTH", len(res.Model), nv, "\n"+sb.String())
				}
				return
			}
			if res.Weight != best {
				per["optimum"]++
				if per["optimum"] <= 3 {
					fmt.Println("OPTIMUM", res.Weight, best, "\n"+sb.String())
				}
			}
		}()
	}
	fmt.Println("wcnf", n, per)
}
