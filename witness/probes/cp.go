package main

import (
	"fmt"
	"math/rand"
	"time"

	"github.com/crillab/gophersat/solver"
)

func cpCheck() {
	rng := rand.New(rand.NewSource(31))
	per := map[string]int{}
	note := func(k string, args ...interface{}) {
		per[k]++
		if per[k] <= 3 {
			fmt.Println(append([]interface{}{k}, args...)...)
		}
	}
	n := 20000
	for it := 0; it < n; it++ {
		nv := 4 + rng.Intn(8)
		type pc struct {
			l, w []int
			k    int
		}
		var cs []pc
		for i, nc := 0, 2+rng.Intn(8); i < nc; i++ {
			k := 2 + rng.Intn(5)
			if k > nv {
				k = nv
			}
			var l, w []int
			tot := 0
			kind := rng.Intn(3)
			for _, v := range rng.Perm(nv)[:k] {
				x := v + 1
				if rng.Intn(2) == 0 {
					x = -x
				}
				ww := 1
				if kind == 2 {
					ww = 1 + rng.Intn(5)
				}
				l, w, tot = append(l, x), append(w, ww), tot+ww
			}
			deg := 1
			if kind != 0 {
				deg = 1 + rng.Intn(tot)
			}
			cs = append(cs, pc{l, w, deg})
		}
		evalA := func(a int) bool {
			for _, c := range cs {
				s := 0
				for i, x := range c.l {
					v := x
					if v < 0 {
						v = -v
					}
					if (x > 0) == (a>>(v-1)&1 == 1) {
						s += c.w[i]
					}
				}
				if s < c.k {
					return false
				}
			}
			return true
		}
		var cl, cw []int
		var clits []solver.Lit
		for _, v := range rng.Perm(nv)[:1+rng.Intn(nv)] {
			x := v + 1
			if rng.Intn(2) == 0 {
				x = -x
			}
			cl, cw, clits = append(cl, x), append(cw, 1+rng.Intn(4)), append(clits, solver.IntToLit(int32(x)))
		}
		best := -1
		for a := 0; a < 1<<nv; a++ {
			if !evalA(a) {
				continue
			}
			c := 0
			for i, x := range cl {
				v := x
				if v < 0 {
					v = -v
				}
				if (x > 0) == (a>>(v-1)&1 == 1) {
					c += cw[i]
				}
			}
			if best < 0 || c < best {
				best = c
			}
		}
		done := make(chan string, 1)
		go func() {
			defer func() {
				if r := recover(); r != nil {
					done <- fmt.Sprint("panic: ", r)
				}
			}()
			var constrs []solver.PBConstr
			for _, c := range cs {
				constrs = append(constrs, solver.GtEq(append([]int{}, c.l...), append([]int{}, c.w...), c.k))
			}
			pb := solver.ParsePBConstrs(constrs)
			if pb.NbVars < nv {
				done <- "skip"
				return
			}
			if pb.Status == solver.Unsat {
				if best >= 0 {
					done <- "wrong unsat at parse"
				} else {
					done <- "ok"
				}
				return
			}
			pb.SetCostFunc(clits, append([]int{}, cw...))
			s := solver.New(pb)
			s.CuttingPlanes = true
			res := s.Optimal(nil, nil)
			switch {
			case res.Status != solver.Sat:
				if best >= 0 {
					done <- "wrong unsat"
					return
				}
			case best < 0:
				done <- "wrong sat"
				return
			default:
				a := 0
				for i, b := range res.Model {
					if b {
						a |= 1 << i
					}
				}
				if !evalA(a) {
					done <- "model violates a constraint"
					return
				}
				if res.Weight != best {
					done <- fmt.Sprintf("optimum %d instead of %d", res.Weight, best)
					return
				}
			}
			done <- "ok"
		}()
		select {
		case r := <-done:
			if r != "ok" && r != "skip" {
				note(r, nv, cs, cl, cw)
			}
		case <-time.After(10 * time.Second):
			note("timeout", nv, cs, cl, cw)
		}
	}
	fmt.Println("cutting planes", n, per)
}
