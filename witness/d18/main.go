// Witness for defects D18 / D29 (properties C13, C18): (a) ParseOPB ignored the '* #variable= n' declaration and
// Problem.PBString did not write it, so variables occurring in no printed constraint were lost on the way back;
// (b) Problem.CNF / Problem.PBString printed a problem that the parser had found unsatisfiable from what the
// simplification left over, which could be satisfiable.
package main

import (
	"fmt"
	"strings"

	"github.com/crillab/gophersat/solver"
)

func main() {
	// (a) three declared variables, one constraint over x2 only: 4 models
	pb, _ := solver.ParseOPB(strings.NewReader("* #variable= 3 #constraint= 1\n1 x2 >= 1 ;\n"))
	fmt.Println("(a) declared 3 variables, parsed:", pb.NbVars, "models:", solver.New(pb).CountModels(), "(expected 3 and 4)")
	pb, _ = solver.ParseOPB(strings.NewReader("* #variable= 3 #constraint= 1\n1 x2 >= 1 ;\n"))
	back, _ := solver.ParseOPB(strings.NewReader(pb.PBString()))
	fmt.Println("    printed and read back:", back.NbVars, "variables")
	// (b) 1 ~x1 +3 x3 +1 x2 >= 7 needs everything... the pair is contradictory
	pb = solver.ParsePBConstrs([]solver.PBConstr{solver.GtEq([]int{-1, 3, 2}, []int{3, 3, 1}, 7), solver.GtEq([]int{-2, 3}, []int{4, 1}, 4)})
	fmt.Println("(b) status after parsing:", pb.Status)
	back, _ = solver.ParseOPB(strings.NewReader(pb.PBString()))
	fmt.Println("    printed and read back:", back.Status, "(expected UNSAT)")
}
