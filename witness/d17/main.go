// Witness for D17: the documented grammar has atom ::= '(' formula ')' with formula ::= clause { ';' clause }*.
package main

import (
	"fmt"
	"os"
	"strings"

	"github.com/crillab/gophersat/bf"
)

func main() {
	fail := false
	for _, s := range []string{"(a ; b)", "c | (a ; b)", "((a;b) ; c)", "(a = b)", "a ; b"} {
		f, err := bf.Parse(strings.NewReader(s))
		fmt.Printf("%-14q -> formula=%v err=%v\n", s, f, err)
		if err != nil {
			fail = true
		}
	}
	if fail {
		fmt.Println("D17 PRESENT")
		os.Exit(1)
	}
	fmt.Println("D17 absent")
}
