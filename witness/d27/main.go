// Witness for defect D27 (property C07): MUSMaxSat returned an unsatisfiable but not minimal set.
// Input: (3) (-2 3) (-1) (1) (-3). The MUSes are {(-1),(1)} and {(3),(-3)}; MUSMaxSat returned all four clauses.
package main

import (
	"fmt"
	"strings"

	"github.com/crillab/gophersat/explain"
)

func main() {
	pb, err := explain.ParseCNF(strings.NewReader("p cnf 3 5\n3 0\n-2 3 0\n-1 0\n1 0\n-3 0\n"))
	if err != nil {
		panic(err)
	}
	mus, err := pb.MUSMaxSat()
	fmt.Println("MUSMaxSat:", mus.Clauses, err, "(minimal sets have 2 clauses)")
}
