// Witness for D15: the dummy guard of a conjunct inside a disjunction reaches only the first clause of the conjunct's CNF.
package main

import (
	"fmt"
	"os"

	"github.com/crillab/gophersat/bf"
)

func main() {
	v := bf.Var
	a, b, c, d, e := v("a"), v("b"), v("c"), v("d"), v("e")
	// satisfiable with a=true, c=false, e=false
	f := bf.And(bf.Not(c), bf.Not(e), bf.Or(a, bf.And(b, bf.Or(c, bf.And(d, e)))))
	truth := f.Eval(map[string]bool{"a": true, "b": false, "c": false, "d": false, "e": false})
	m := bf.Solve(f)
	fmt.Printf("formula %s\nEval under a=1,b=c=d=e=0: %v\nSolve: %v\n", f, truth, m)
	bf.Dimacs(f, os.Stdout)
	if truth && m == nil {
		fmt.Println("D15 PRESENT: satisfiable formula declared unsatisfiable")
		os.Exit(1)
	}
	if m != nil && !f.Eval(m) {
		fmt.Println("D15 PRESENT: model does not satisfy the formula")
		os.Exit(1)
	}
	fmt.Println("D15 absent")
}
