// Differential triage harness (NOT a check, never run by MANIFEST commands): compares gophersat with brute force on
// random small inputs. It was used by hand to find failing inputs for defects D7, D22 and D26 and to validate their
// repairs; see ../README. Usage: go run . [count|enum|assume|pb|opt] [iterations]
package main

import (
	"fmt"
	"math/rand"
	"os"
	"strconv"

	"github.com/crillab/gophersat/solver"
)

type pbc struct {
	lits, weights []int
	k             int
}

func litTrue(l int, m func(int) bool) bool {
	if l < 0 {
		return !m(-l)
	}
	return m(l)
}

func evalCNF(cls [][]int, m func(int) bool) bool {
	for _, c := range cls {
		ok := false
		for _, l := range c {
			if litTrue(l, m) {
				ok = true
			}
		}
		if !ok {
			return false
		}
	}
	return true
}

func evalPB(cs []pbc, m func(int) bool) bool {
	for _, c := range cs {
		sum := 0
		for i, l := range c.lits {
			if litTrue(l, m) {
				sum += c.weights[i]
			}
		}
		if sum < c.k {
			return false
		}
	}
	return true
}

func bits(a int) func(int) bool { return func(v int) bool { return a>>(v-1)&1 == 1 } }

func randCNF(rng *rand.Rand, nv, nc, kmin, kmax int) [][]int {
	var cls [][]int
	for i := 0; i < nc; i++ {
		k := kmin + rng.Intn(kmax-kmin+1)
		var c []int
		for j := 0; j < k; j++ {
			l := 1 + rng.Intn(nv)
			if rng.Intn(2) == 0 {
				l = -l
			}
			c = append(c, l)
		}
		cls = append(cls, c)
	}
	return cls
}

func copyCNF(cls [][]int) [][]int {
	cp := make([][]int, len(cls))
	for i := range cls {
		cp[i] = append([]int{}, cls[i]...)
	}
	return cp
}

func randPB(rng *rand.Rand, nv int) []pbc {
	var cs []pbc
	for i, nc := 0, 2+rng.Intn(6); i < nc; i++ {
		n := 2 + rng.Intn(5)
		if n > nv {
			n = nv
		}
		var ls, ws []int
		tot := 0
		for _, v := range rng.Perm(nv)[:n] {
			l := v + 1
			if rng.Intn(2) == 0 {
				l = -l
			}
			w := 1 + rng.Intn(5)
			ls, ws, tot = append(ls, l), append(ws, w), tot+w
		}
		cs = append(cs, pbc{ls, ws, 1 + rng.Intn(tot)})
	}
	return cs
}

func pbProblem(cs []pbc) *solver.Problem {
	var constrs []solver.PBConstr
	for _, c := range cs {
		constrs = append(constrs, solver.GtEq(append([]int{}, c.lits...), append([]int{}, c.weights...), c.k))
	}
	return solver.ParsePBConstrs(constrs)
}

func main() {
	mode, n := "all", 5000
	if len(os.Args) > 1 {
		mode = os.Args[1]
	}
	if len(os.Args) > 2 {
		n, _ = strconv.Atoi(os.Args[2])
	}
	rng := rand.New(rand.NewSource(1))
	bad := 0
	report := func(what string, args ...interface{}) {
		bad++
		if bad <= 5 {
			fmt.Println(append([]interface{}{"MISMATCH", what}, args...)...)
		}
	}
	for it := 0; it < n; it++ {
		func() {
			defer func() {
				if r := recover(); r != nil {
					report("panic", r)
				}
			}()
			if mode == "count" || mode == "all" {
				nv := 8 + rng.Intn(6)
				cls := randCNF(rng, nv, nv*2+rng.Intn(nv*2), 2, 3)
				want := 0
				for a := 0; a < 1<<nv; a++ {
					if evalCNF(cls, bits(a)) {
						want++
					}
				}
				if got := solver.New(solver.ParseSliceNb(copyCNF(cls), nv)).CountModels(); got != want {
					report("count", nv, cls, got, want)
				}
			}
			if mode == "enum" || mode == "all" {
				nv := 6 + rng.Intn(6)
				cls := randCNF(rng, nv, nv+rng.Intn(nv*2), 2, 3)
				want := 0
				for a := 0; a < 1<<nv; a++ {
					if evalCNF(cls, bits(a)) {
						want++
					}
				}
				s := solver.New(solver.ParseSliceNb(copyCNF(cls), nv))
				ch := make(chan []bool)
				done := make(chan int)
				go func() { done <- s.Enumerate(ch, nil) }()
				seen := map[string]bool{}
				for m := range ch {
					k := fmt.Sprint(m)
					if seen[k] || !evalCNF(cls, func(v int) bool { return m[v-1] }) {
						report("enum duplicate or non-model", nv, cls, m)
					}
					seen[k] = true
				}
				if got := <-done; got != want || len(seen) != want {
					report("enum", nv, cls, got, len(seen), want)
				}
			}
			if mode == "assume" || mode == "all" {
				nv := 3 + rng.Intn(5)
				cls := randCNF(rng, nv, 2+rng.Intn(10), 1, 3)
				pb := solver.ParseSliceNb(copyCNF(cls), nv)
				if pb.Status != solver.Unsat {
					s := solver.New(pb)
					for round := 0; round < 5; round++ {
						var as []int
						var lits []solver.Lit
						for j, na := 0, rng.Intn(4); j < na; j++ {
							l := 1 + rng.Intn(nv)
							if rng.Intn(2) == 0 {
								l = -l
							}
							as, lits = append(as, l), append(lits, solver.IntToLit(int32(l)))
						}
						st := s.Assume(lits)
						if st == solver.Indet {
							st = s.Solve()
						}
						want := false
						for a := 0; a < 1<<nv && !want; a++ {
							ok := evalCNF(cls, bits(a))
							for _, l := range as {
								ok = ok && litTrue(l, bits(a))
							}
							want = ok
						}
						if (st == solver.Sat) != want {
							report("assume", nv, cls, round, as, st, want)
						} else if st == solver.Sat {
							m := s.Model()
							mf := func(v int) bool { return m[v-1] }
							ok := evalCNF(cls, mf)
							for _, l := range as {
								ok = ok && litTrue(l, mf)
							}
							if !ok {
								report("assume model", nv, cls, as, m)
							}
						}
					}
				}
			}
			if mode == "pb" || mode == "opt" || mode == "all" {
				nv := 4 + rng.Intn(7)
				cs := randPB(rng, nv)
				var cl, cw []int
				var clits []solver.Lit
				for _, v := range rng.Perm(nv)[:1+rng.Intn(nv)] {
					l := v + 1
					if rng.Intn(2) == 0 {
						l = -l
					}
					cl, cw, clits = append(cl, l), append(cw, 1+rng.Intn(4)), append(clits, solver.IntToLit(int32(l)))
				}
				best := -1
				for a := 0; a < 1<<nv; a++ {
					if !evalPB(cs, bits(a)) {
						continue
					}
					c := 0
					for i, l := range cl {
						if litTrue(l, bits(a)) {
							c += cw[i]
						}
					}
					if best < 0 || c < best {
						best = c
					}
				}
				pb := pbProblem(cs)
				if pb.NbVars < nv {
					return
				}
				if pb.Status == solver.Unsat {
					if best >= 0 {
						report("pb unsat at parse", nv, cs)
					}
					return
				}
				if mode != "pb" {
					pb.SetCostFunc(clits, append([]int{}, cw...))
				}
				s := solver.New(pb)
				if mode == "pb" {
					st := s.Solve()
					if (st == solver.Sat) != (best >= 0) {
						report("pb verdict", nv, cs, st)
					} else if st == solver.Sat {
						m := s.Model()
						if !evalPB(cs, func(v int) bool { return m[v-1] }) {
							report("pb model", nv, cs, m)
						}
					}
					return
				}
				res := s.Optimal(nil, nil)
				switch {
				case res.Status != solver.Sat:
					if best >= 0 {
						report("opt unsat", nv, cs, cl, cw, best)
					}
				case !evalPB(cs, func(v int) bool { return res.Model[v-1] }) || res.Weight != best:
					report("opt", nv, cs, "cost", cl, cw, "got", res.Weight, "want", best, res.Model)
				}
			}
		}()
	}
	fmt.Println("mode", mode, "iterations", n, "mismatches", bad)
	if bad > 0 {
		os.Exit(1)
	}
}
