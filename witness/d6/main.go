package main

import (
	"fmt"
	"strings"

	"github.com/crillab/gophersat/explain"
)

func main() {
	pb, err := explain.ParseCNF(strings.NewReader("p cnf 2 3\n1 0\n-1 0\n1 2 0\n"))
	if err != nil {
		panic(err)
	}
	before := pb.CNF()
	mus, err := pb.MUSDeletion()
	fmt.Println("mus:", mus.CNF(), err)
	fmt.Println("caller's problem unchanged:", before == pb.CNF())
	fmt.Println(pb.Clauses)
}
