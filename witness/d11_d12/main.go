package main

import (
	"fmt"
	"strings"

	"github.com/crillab/gophersat/maxsat"
)

func main() {
	s, err := maxsat.ParseWCNF(strings.NewReader("p wcnf 3 4 10\n10 1 2 0\n1 -1 0\n1 -2 0\n1 3 0\n"))
	if err != nil {
		panic(err)
	}
	res := s.Optimal(nil, nil)
	fmt.Println("D11: status", res.Status, "weight", res.Weight, "model length", len(res.Model), "(declared variables: 3)")

	a, b, c := maxsat.Var("a"), maxsat.Var("b"), maxsat.Var("c")
	pb := maxsat.New(
		maxsat.SoftPBConstr([]maxsat.Lit{a, b, c}, nil, 3),
		maxsat.HardClause(maxsat.Not("a")),
		maxsat.HardClause(maxsat.Not("b")),
	)
	m, cost := pb.Solve()
	fmt.Println("D12: model", m, "cost", cost, "(expected cost 1)")
}
