package main

import (
	"fmt"
	"math/rand"

	"github.com/crillab/gophersat/solver"
)

func brute(cnf [][]int, nv int) int {
	n := 0
	for m := 0; m < 1<<nv; m++ {
		all := true
		for _, c := range cnf {
			sat := false
			for _, l := range c {
				v := l
				if v < 0 {
					v = -v
				}
				if (l > 0) == (m>>(v-1)&1 == 1) {
					sat = true
				}
			}
			if !sat {
				all = false
				break
			}
		}
		if all {
			n++
		}
	}
	return n
}

func brutePb(pb *solver.Problem, nv int) int {
	n := 0
	val := func(m int, l int) bool {
		v := l
		if v < 0 {
			v = -v
		}
		return (l > 0) == (m>>(v-1)&1 == 1)
	}
	for m := 0; m < 1<<nv; m++ {
		all := true
		for _, u := range pb.Units {
			if !val(m, int(u.Int())) {
				all = false
			}
		}
		for _, c := range pb.Clauses {
			cnt := 0
			for i := 0; i < c.Len(); i++ {
				if val(m, int(c.Get(i).Int())) {
					cnt++
				}
			}
			if cnt < c.Cardinality() {
				all = false
			}
		}
		if all {
			n++
		}
	}
	return n
}

func run(cnf [][]int, nv int) (n int, err interface{}) {
	defer func() { err = recover() }()
	cp := make([][]int, len(cnf))
	for i := range cnf {
		cp[i] = append([]int(nil), cnf[i]...)
	}
	pb := solver.ParseSliceNb(cp, nv)
	if pb.Status == solver.Unsat {
		return 0, nil
	}
	pb.DetectAtMostOne()
	return brutePb(pb, nv), nil
}

func main() {
	rnd := rand.New(rand.NewSource(7))
	bad, pan, skipped, withCard := 0, 0, 0, 0
	for it := 0; it < 20000; it++ {
		nv := 4 + rnd.Intn(5)
		var cnf [][]int
		// a few cliques of literals (random polarity), emitted in random clause order
		for k := rnd.Intn(3); k >= 0; k-- {
			perm := rnd.Perm(nv)
			sz := 2 + rnd.Intn(3)
			if sz > nv {
				sz = nv
			}
			lits := make([]int, sz)
			for i := range lits {
				lits[i] = perm[i] + 1
				if rnd.Intn(4) != 0 {
					lits[i] = -lits[i]
				}
			}
			for a := 0; a < sz; a++ {
				for b := a + 1; b < sz; b++ {
					if rnd.Intn(8) == 0 {
						continue // incomplete clique
					}
					cnf = append(cnf, []int{lits[a], lits[b]})
				}
			}
		}
		for k := rnd.Intn(5); k > 0; k-- {
			perm := rnd.Perm(nv)
			sz := 2 + rnd.Intn(2)
			c := make([]int, sz)
			for i := range c {
				c[i] = perm[i] + 1
				if rnd.Intn(2) == 0 {
					c[i] = -c[i]
				}
			}
			cnf = append(cnf, c)
		}
		rnd.Shuffle(len(cnf), func(i, j int) { cnf[i], cnf[j] = cnf[j], cnf[i] })
		want := brute(cnf, nv)
		got, err := run(cnf, nv)
		if err != nil {
			pan++
			if pan < 3 {
				fmt.Printf("PANIC %v: %v\n", cnf, err)
			}
			continue
		}
		if got == -1 {
			skipped++
			continue
		}
		withCard++
		if got != want {
			bad++
			if bad < 4 {
				fmt.Printf("MISMATCH %v nv=%d: got %d want %d\n", cnf, nv, got, want)
			}
		}
	}
	fmt.Printf("fuzz: mismatches=%d panics=%d skipped=%d checked=%d\n", bad, pan, skipped, withCard)
}
