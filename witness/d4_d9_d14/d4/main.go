package main

import (
	"fmt"

	"github.com/crillab/gophersat/solver"
)

func brute(cnf [][]int, nv int) int {
	n := 0
	for m := 0; m < 1<<nv; m++ {
		all := true
		for _, c := range cnf {
			sat := false
			for _, l := range c {
				v := l
				if v < 0 {
					v = -v
				}
				if (l > 0) == (m>>(v-1)&1 == 1) {
					sat = true
				}
			}
			if !sat {
				all = false
				break
			}
		}
		if all {
			n++
		}
	}
	return n
}

// bruteAfter counts the assignments satisfying the problem as it stands after detection, read through the
// public accessors (units, clauses with their degree).
func bruteAfter(pb *solver.Problem, nv int) int {
	val := func(m int, l int) bool {
		v := l
		if v < 0 {
			v = -v
		}
		return (l > 0) == (m>>(v-1)&1 == 1)
	}
	n := 0
	for m := 0; m < 1<<nv; m++ {
		all := true
		for _, u := range pb.Units {
			if !val(m, int(u.Int())) {
				all = false
			}
		}
		for _, c := range pb.Clauses {
			cnt := 0
			for i := 0; i < c.Len(); i++ {
				if val(m, int(c.Get(i).Int())) {
					cnt++
				}
			}
			if cnt < c.Cardinality() {
				all = false
			}
		}
		if all {
			n++
		}
	}
	return n
}

func main() {
	tests := []struct {
		name string
		cnf  [][]int
		nv   int
	}{
		{"triangle that is no negative clique", [][]int{{-1, -2}, {-1, -3}, {2, 3}}, 3},
		{"3-clique plus three other binaries", [][]int{{-1, -2}, {-1, -3}, {-2, -3}, {1, 4}, {2, 5}, {3, 6}}, 6},
		{"others before, between and after the clique", [][]int{{1, 4}, {-1, -2}, {2, 5, 6}, {-1, -3}, {-2, -3}, {3, 6}, {4, 5, 6}}, 6},
		{"two cliques, second one incomplete", [][]int{{-1, -2}, {-1, -3}, {-2, -3}, {-4, -5}, {-4, -6}, {1, 4}, {5, 6, 2}}, 6},
		{"4-clique", [][]int{{-1, -2}, {-1, -3}, {-1, -4}, {-2, -3}, {-2, -4}, {-3, -4}, {1, 2, 3, 4}, {4, 5}}, 5},
		{"star around 1 with one real triangle", [][]int{{-1, -2}, {-1, -3}, {-1, -4}, {-3, -4}, {2, 5}}, 5},
	}
	ok := true
	for _, t := range tests {
		want := brute(t.cnf, t.nv)
		pb := solver.ParseSliceNb(t.cnf, t.nv)
		before := len(pb.Clauses)
		pb.DetectAtMostOne()
		after := len(pb.Clauses)
		structural := bruteAfter(pb, t.nv)
		got := -1
		if after > 0 {
			got = solver.New(pb).CountModels()
		}
		st := "ok  "
		if structural != want || (got >= 0 && got != want) {
			st = "FAIL"
			ok = false
		}
		fmt.Printf("%s %s: clauses %d -> %d, models of the problem after detection=%d (CountModels=%d), models of the input=%d\n", st, t.name, before, after, structural, got, want)
	}
	if ok {
		fmt.Println("D4 witness: PASS")
	} else {
		fmt.Println("D4 witness: FAIL")
	}
}
