package main

import (
	"fmt"
	"math/rand"

	"github.com/crillab/gophersat/solver"
)

func brute(constrs []solver.CardConstr, nv int) int {
	n := 0
	for m := 0; m < 1<<nv; m++ {
		all := true
		for _, c := range constrs {
			cnt := 0
			for _, l := range c.Lits {
				v := l
				if v < 0 {
					v = -v
				}
				if (l > 0) == (m>>(v-1)&1 == 1) {
					cnt++
				}
			}
			if cnt < c.AtLeast {
				all = false
				break
			}
		}
		if all {
			n++
		}
	}
	return n
}

func count(cs []solver.CardConstr, nv int) (n int, skipped bool) {
	defer func() {
		if e := recover(); e != nil {
			skipped = true
		}
	}()
	cp := make([]solver.CardConstr, len(cs))
	for i, c := range cs {
		cp[i] = solver.CardConstr{Lits: append([]int(nil), c.Lits...), AtLeast: c.AtLeast}
	}
	// make sure every variable is mentioned so that NbVars == nv: add tautological x or not x? not allowed; use a constraint over all vars with degree 0.. ignored. So count over pb.NbVars instead.
	pb := solver.ParseCardConstrs(cp)
	if pb.Status == solver.Unsat {
		return 0, false
	}
	if len(pb.Clauses) == 0 {
		// D8: CountModels panics; count free variables by hand
		free := 0
		for _, m := range pb.Model {
			if m == 0 {
				free++
			}
		}
		return 1 << uint(free), false
	}
	return solver.New(pb).CountModels(), false
}

func main() {
	rnd := rand.New(rand.NewSource(1))
	bad, skipped := 0, 0
	for it := 0; it < 20000; it++ {
		nv := 3 + rnd.Intn(4)
		var cs []solver.CardConstr
		// a clause mentioning all variables with degree 1 is not neutral; instead force NbVars by a unit-free wide constraint of degree 1 over all positive and one negative literal? Keep simple: first constraint spans all variables.
		all := make([]int, nv)
		for i := range all {
			all[i] = i + 1
			if rnd.Intn(2) == 0 {
				all[i] = -all[i]
			}
		}
		cs = append(cs, solver.CardConstr{Lits: all, AtLeast: 1 + rnd.Intn(nv-1)})
		for k := rnd.Intn(3); k >= 0; k-- {
			v := 1 + rnd.Intn(nv)
			if rnd.Intn(2) == 0 {
				v = -v
			}
			cs = append(cs, solver.CardConstr{Lits: []int{v}, AtLeast: 1})
		}
		for k := rnd.Intn(3); k > 0; k-- {
			perm := rnd.Perm(nv)
			sz := 2 + rnd.Intn(nv-1)
			lits := make([]int, sz)
			for i := range lits {
				lits[i] = perm[i] + 1
				if rnd.Intn(2) == 0 {
					lits[i] = -lits[i]
				}
			}
			cs = append(cs, solver.CardConstr{Lits: lits, AtLeast: rnd.Intn(sz + 1)})
		}
		want := brute(cs, nv)
		got, sk := count(cs, nv)
		if sk {
			skipped++
			continue
		}
		if got != want {
			bad++
			if bad < 5 {
				fmt.Printf("MISMATCH %v: got %d want %d\n", cs, got, want)
			}
		}
	}
	fmt.Printf("fuzz: mismatches=%d skipped(panic)=%d of 20000\n", bad, skipped)
}
