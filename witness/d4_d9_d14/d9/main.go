package main

import (
	"fmt"
	"strings"

	"github.com/crillab/gophersat/solver"
)

func try(txt string, wantModels int) (ok bool) {
	defer func() {
		if e := recover(); e != nil {
			fmt.Printf("FAIL %q: panic: %v\n", txt, e)
			ok = false
		}
	}()
	pb, err := solver.ParseOPB(strings.NewReader(txt))
	if err != nil {
		fmt.Printf("FAIL %q: error %v\n", txt, err)
		return false
	}
	var n int
	if len(pb.Clauses) == 0 && len(pb.Units) == 0 {
		// no constraint left: every assignment is a model. (CountModels on such a problem hits the
		// unrelated defect D8, index out of range in decisionLits, so it is not used here.)
		if st := solver.New(pb).Solve(); st != solver.Sat {
			fmt.Printf("FAIL %q: status %v\n", txt, st)
			return false
		}
		n = 1 << uint(pb.NbVars)
	} else {
		n = solver.New(pb).CountModels()
	}
	if n != wantModels {
		fmt.Printf("FAIL %q: %d models, want %d\n", txt, n, wantModels)
		return false
	}
	fmt.Printf("ok   %q: %d models\n", txt, n)
	return true
}

func main() {
	ok := true
	// trivially true constraints: every assignment of x1,x2 is a model
	ok = try("1 x1 +1 x2 >= 0 ;\n", 4) && ok
	ok = try("1 x1 +1 x2 >= -3 ;\n", 4) && ok
	ok = try("-1 x1 -1 x2 >= -2 ;\n", 4) && ok
	// trivially true together with a real one
	ok = try("1 x1 +1 x2 >= 0 ;\n1 x1 +1 x2 >= 1 ;\n", 3) && ok
	// control
	ok = try("1 x1 +1 x2 >= 1 ;\n", 3) && ok
	if ok {
		fmt.Println("D9 witness: PASS")
	} else {
		fmt.Println("D9 witness: FAIL")
	}
}
