package main

import (
	"fmt"

	"github.com/crillab/gophersat/solver"
)

func brute(constrs []solver.CardConstr, nv int) int {
	n := 0
	for m := 0; m < 1<<nv; m++ {
		all := true
		for _, c := range constrs {
			cnt := 0
			for _, l := range c.Lits {
				v := l
				if v < 0 {
					v = -v
				}
				val := m>>(v-1)&1 == 1
				if (l > 0) == val {
					cnt++
				}
			}
			if cnt < c.AtLeast {
				all = false
				break
			}
		}
		if all {
			n++
		}
	}
	return n
}

func clone(cs []solver.CardConstr) []solver.CardConstr {
	out := make([]solver.CardConstr, len(cs))
	for i, c := range cs {
		out[i] = solver.CardConstr{Lits: append([]int(nil), c.Lits...), AtLeast: c.AtLeast}
	}
	return out
}

func main() {
	tests := []struct {
		cs []solver.CardConstr
		nv int
	}{
		{[]solver.CardConstr{{Lits: []int{1}, AtLeast: 1}, {Lits: []int{1, 2, 3}, AtLeast: 2}, {Lits: []int{-2, -3, 4}, AtLeast: 2}}, 4},
		{[]solver.CardConstr{{Lits: []int{1}, AtLeast: 1}, {Lits: []int{2}, AtLeast: 1}, {Lits: []int{1, 2, 3, 4, 5}, AtLeast: 3}, {Lits: []int{-3, -4, -5, 1}, AtLeast: 2}}, 5},
		{[]solver.CardConstr{{Lits: []int{-1}, AtLeast: 1}, {Lits: []int{1, 2, 3, 4}, AtLeast: 2}, {Lits: []int{-2, -3, -4, 5}, AtLeast: 2}}, 5},
		{[]solver.CardConstr{{Lits: []int{1}, AtLeast: 1}, {Lits: []int{4}, AtLeast: 1}, {Lits: []int{1, 2, 3, 4}, AtLeast: 3}, {Lits: []int{-2, -3, 5}, AtLeast: 1}}, 5},
	}
	ok := true
	for i, t := range tests {
		want := brute(t.cs, t.nv)
		pb := solver.ParseCardConstrs(clone(t.cs))
		got := 0
		if pb.Status != solver.Unsat {
			got = solver.New(pb).CountModels()
		}
		st := "ok  "
		if got != want {
			st = "FAIL"
			ok = false
		}
		fmt.Printf("%s test %d: CountModels=%d brute force=%d\n", st, i, got, want)
	}
	if ok {
		fmt.Println("D14 witness: PASS")
	} else {
		fmt.Println("D14 witness: FAIL")
	}
}
