package main

import (
	"fmt"

	"github.com/crillab/gophersat/solver"
)

func main() {
	cnf := [][]int{{-5, -2}, {6, -7}, {-5, 8, 2}, {-2, 3}, {-5, 3}, {4, 3, 1}}
	pb := solver.ParseSliceNb(cnf, 8)
	pb.DetectAtMostOne()
	fmt.Println(pb.PBString())
	// brute-force the problem after detection, read through its public accessors
	n := 0
	for m := 0; m < 1<<8; m++ {
		all := true
		for _, c := range pb.Clauses {
			cnt := 0
			for i := 0; i < c.Len(); i++ {
				l := int(c.Get(i).Int())
				v := l
				if v < 0 {
					v = -v
				}
				if (l > 0) == (m>>(v-1)&1 == 1) {
					cnt++
				}
			}
			if cnt < c.Cardinality() {
				all = false
			}
		}
		if all {
			n++
		}
	}
	fmt.Println("brute force over the problem after detection:", n)
	fmt.Println("CountModels:", solver.New(pb).CountModels())
	pb2 := solver.ParseCardConstrs([]solver.CardConstr{{Lits: []int{6, -7}, AtLeast: 1}, {Lits: []int{-5, 8, 2}, AtLeast: 1}, {Lits: []int{-2, 3}, AtLeast: 1}, {Lits: []int{4, 3, 1}, AtLeast: 1}, {Lits: []int{-5, -2, 3}, AtLeast: 2}})
	fmt.Println("CountModels of the same constraints through ParseCardConstrs:", solver.New(pb2).CountModels())
}
