// Witness for defect D19 (property C03): SetCostFunc(lits, nil) is documented ("If all weights are 1, weights can be
// nil") but Optimal / Minimize panicked (index out of range in wLits.Less) as soon as two cost literals exist.
package main

import (
	"fmt"

	"github.com/crillab/gophersat/solver"
)

func main() {
	defer func() {
		if r := recover(); r != nil {
			fmt.Println("PANIC:", r)
		}
	}()
	for _, useOptimal := range []bool{true, false} {
		pb := solver.ParseSlice([][]int{{1, 2}, {2, 3}, {-1, -3}})
		pb.SetCostFunc([]solver.Lit{solver.IntToLit(1), solver.IntToLit(2), solver.IntToLit(3)}, nil)
		s := solver.New(pb)
		if useOptimal {
			res := s.Optimal(nil, nil)
			fmt.Println("Optimal:", res.Status, res.Weight, res.Model)
		} else {
			c := s.Minimize()
			fmt.Println("Minimize:", c, s.Model())
		}
	}
}
