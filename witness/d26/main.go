// Witness for defect D26 (properties C02/C03/C09): propagateUnits wrote each forced literal into the model without
// consulting its current value. Problem: 2 ~x4 +2 ~x1 +1 x6 >= 1 ; ~x7 >= 1 ; minimise 1 ~x4 +1 x6 +2 ~x1.
// The optimum is 1. After a model of cost 1 the bound "cost <= 0" forces x1, x4 and ~x6; binding x1 and x4 makes the
// first constraint propagate x6 at the top level, and the third forced literal ~x6 then overwrote that binding:
// Optimal returned cost 0 with a model violating the first constraint. Found with ../diff (mode opt).
package main

import (
	"fmt"

	"github.com/crillab/gophersat/solver"
)

func main() {
	pb := solver.ParsePBConstrs([]solver.PBConstr{
		solver.GtEq([]int{-4, 6, -1}, []int{2, 1, 2}, 1),
		solver.GtEq([]int{-7}, []int{1}, 1),
	})
	pb.SetCostFunc([]solver.Lit{solver.IntToLit(-4), solver.IntToLit(6), solver.IntToLit(-1)}, []int{1, 1, 2})
	res := solver.New(pb).Optimal(nil, nil)
	m := res.Model
	sum := 0
	if !m[3] {
		sum += 2
	}
	if m[5] {
		sum++
	}
	if !m[0] {
		sum += 2
	}
	fmt.Println("Optimal:", res.Status, "cost", res.Weight, "model", m, "first constraint satisfied:", sum >= 1, "(true optimum: 1)")
}
