package main

import (
	"fmt"
	"strings"

	"github.com/crillab/gophersat/solver"
)

func main() {
	for _, txt := range []string{
		"1 x1 >= 1 ;\n1 ~x1 >= 1 ;\n",
		"1 x1 +1 x2 >= 2 ;\n1 ~x2 +1 x3 >= 2 ;\n",
		"1 x1 >= 1 ;\n1 x1 +1 x2 >= 1 ;\n1 ~x1 >= 1 ;\n",
	} {
		pb, err := solver.ParseOPB(strings.NewReader(txt))
		if err != nil {
			fmt.Println("error", err)
			continue
		}
		s := solver.New(pb)
		fmt.Printf("%q -> %v (expected UNSAT)\n", txt, s.Solve())
	}
	pb := solver.ParsePBConstrs([]solver.PBConstr{solver.GtEq([]int{1}, []int{1}, 1), solver.GtEq([]int{-1}, []int{1}, 1)})
	fmt.Println("ParsePBConstrs same constraints:", solver.New(pb).Solve())
}
