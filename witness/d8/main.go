package main

import (
	"fmt"

	"github.com/crillab/gophersat/solver"
)

func try(name string, f func()) {
	defer func() {
		if e := recover(); e != nil {
			fmt.Printf("%s: PANIC %v\n", name, e)
		}
	}()
	f()
}

func main() {
	try("CountModels(no constraint, 3 vars)", func() {
		n := solver.New(solver.ParseSliceNb(nil, 3)).CountModels()
		fmt.Printf("CountModels(no constraint, 3 vars) = %d\n", n)
	})
	try("Enumerate(no constraint, 3 vars)", func() {
		s := solver.New(solver.ParseSliceNb(nil, 3))
		ch := make(chan []bool)
		got := 0
		done := make(chan struct{})
		go func() {
			for m := range ch {
				got++
				_ = m
			}
			close(done)
		}()
		n := s.Enumerate(ch, nil)
		<-done
		fmt.Printf("Enumerate(no constraint, 3 vars) = %d, %d models delivered\n", n, got)
	})
	try("CountModels(x1, 3 vars)", func() {
		n := solver.New(solver.ParseSliceNb([][]int{{1}}, 3)).CountModels()
		fmt.Printf("CountModels({x1}, 3 vars) = %d\n", n)
	})
	try("CountModels(x1|x2, 3 vars)", func() {
		n := solver.New(solver.ParseSliceNb([][]int{{1, 2}}, 3)).CountModels()
		fmt.Printf("CountModels({x1 x2}, 3 vars) = %d\n", n)
	})
}
