// Witness for known finding D7 (property C10): Assume retracts the problem's unit clauses.
// Problem: (x1) & (-x1 | x2) & (x3 | x4). Assumption: -x2. Problem + assumption is unsatisfiable,
// gophersat answers Sat with x1 or x2 false.
package main

import (
	"fmt"

	"github.com/crillab/gophersat/solver"
)

func main() {
	pb := solver.ParseSlice([][]int{{1}, {-1, 2}, {3, 4}})
	s := solver.New(pb)
	s.Assume([]solver.Lit{solver.IntToLit(-2)})
	st := s.Solve()
	fmt.Println("status:", st)
	if st == solver.Sat {
		m := s.Model()
		fmt.Println("model:", m, " -> violates unit clause x1 / clause (-x1|x2):", !m[0] || !m[1])
	}
}
