package main

import (
	"fmt"
	"strings"

	"github.com/crillab/gophersat/maxsat"
)

func main() {
	a, b := maxsat.Var("a"), maxsat.Var("b")
	pb := maxsat.New(
		maxsat.SoftClause(a, b),
		maxsat.SoftPBConstr([]maxsat.Lit{a.Negation(), b.Negation()}, nil, 2),
	)
	m, cost := pb.Solve()
	fmt.Println("soft (a|b), soft (-a + -b >= 2): model", m, "cost", cost, "(expected 1)")

	func() {
		defer func() {
			if r := recover(); r != nil {
				fmt.Println("D21 PANIC:", r)
			}
		}()
		s, err := maxsat.ParseWCNF(strings.NewReader("p wcnf 5 2 10\n10 1 2 0\n10 -1 0\n"))
		if err != nil {
			panic(err)
		}
		res := s.Optimal(nil, nil)
		fmt.Println("D21: status", res.Status, "model", res.Model)
	}()
}
