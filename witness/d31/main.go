// Witness for D31: maxsat.ParseWCNF ignored the error of its bufio.Scanner. A line longer than the scanner's buffer
// (64 KiB) stops the scanner; the lines read so far were returned as the whole problem, without error.
// Here a first soft clause, then a hard clause of 20000 literals (one line of about 130 KB), then a hard unit clause
// that contradicts nothing by itself: with the defect the problem "has" one clause and cost 0 is reported although
// the text denotes another problem; the repaired reader reports the error.
package main

import (
	"fmt"
	"os"
	"strings"

	"github.com/crillab/gophersat/maxsat"
)

func main() {
	var sb strings.Builder
	sb.WriteString("p wcnf 20001 3 10\n")
	sb.WriteString("1 1 0\n")
	sb.WriteString("10")
	for i := 2; i <= 20001; i++ {
		fmt.Fprintf(&sb, " %d", i)
	}
	sb.WriteString(" 0\n")
	sb.WriteString("10 -1 0\n")
	s, err := maxsat.ParseWCNF(strings.NewReader(sb.String()))
	if err != nil {
		fmt.Println("ok: the reader reports", err)
		return
	}
	res := s.Optimal(nil, nil)
	fmt.Printf("DEFECT: no error; optimum of the truncated problem = %d (the text has a hard clause -1: the optimum is 1)\n", res.Weight)
	os.Exit(1)
}
