module d31

go 1.23

require github.com/crillab/gophersat v0.0.0

replace github.com/crillab/gophersat => /repo
