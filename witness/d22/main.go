// Witness for defect D22 (property C05): the clause blocking the decisions of a found model watched its two
// shallowest decisions, so it was never examined again after a backjump that kept them, and a model could be found
// and counted a second time. Smallest instance found by delta debugging of a random 3-SAT formula:
// (x11 | x3) & (-x5 | -x9) & (x5 | -x9 | -x3) over 11 variables has 896 models; CountModels returned 960.
package main

import (
	"fmt"

	"github.com/crillab/gophersat/solver"
)

func main() {
	cls := [][]int{{11, 3}, {-5, -9}, {5, -9, -3}}
	nv := 11
	want := 0
	for m := 0; m < 1<<nv; m++ {
		ok := true
		for _, c := range cls {
			sat := false
			for _, l := range c {
				v := l
				if v < 0 {
					v = -v
				}
				if (l > 0) == (m>>(v-1)&1 == 1) {
					sat = true
				}
			}
			if !sat {
				ok = false
			}
		}
		if ok {
			want++
		}
	}
	cp := [][]int{{11, 3}, {-5, -9}, {5, -9, -3}}
	got := solver.New(solver.ParseSliceNb(cp, nv)).CountModels()
	fmt.Println("CountModels:", got, "brute force:", want)
}
