// Witness for defect D20 (properties C13, C07, C08): explain.ParseCNF made one clause of every line.
package main

import (
	"fmt"
	"strings"

	"github.com/crillab/gophersat/explain"
)

func main() {
	for _, txt := range []string{"p cnf 3 2\n1 -2 0 2 3 0\n", "p cnf 3 2\n1\n-2 0\n2 3 0\n"} {
		pb, err := explain.ParseCNF(strings.NewReader(txt))
		fmt.Printf("%q => %v %v (expected [[1 -2] [2 3]])\n", txt, pb.Clauses, err)
	}
}
