// Witness for known finding D28 (property C11): the exactly-one group of five or more variables is encoded with helper
// variables whose definitions live inside the formula. Under a negation the solver breaks the definitions instead of
// the property: not(unique(a,b,c,d,e)) & a & -b & -c & -d & -e is unsatisfiable (exactly a is true), yet a model is
// returned. With four variables (pairwise encoding, no helper) the answer is correct.
package main

import (
	"fmt"

	"github.com/crillab/gophersat/bf"
)

func main() {
	f := bf.And(bf.Not(bf.Unique("a", "b", "c", "d", "e")), bf.Var("a"), bf.Not(bf.Var("b")), bf.Not(bf.Var("c")), bf.Not(bf.Var("d")), bf.Not(bf.Var("e")))
	fmt.Println("five variables: model is nil:", bf.Solve(f) == nil, bf.Solve(f))
	g := bf.And(bf.Not(bf.Unique("a", "b", "c", "d")), bf.Var("a"), bf.Not(bf.Var("b")), bf.Not(bf.Var("c")), bf.Not(bf.Var("d")))
	fmt.Println("four variables: model is nil:", bf.Solve(g) == nil)
}
