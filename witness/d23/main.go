// Witness for defect D23 (property C09): a constraint that repeats a variable, handed to AppendClause.
package main

import (
	"fmt"

	"github.com/crillab/gophersat/solver"
)

func lits(xs ...int) []solver.Lit {
	out := make([]solver.Lit, len(xs))
	for i, x := range xs {
		out[i] = solver.IntToLit(int32(x))
	}
	return out
}

func main() {
	defer func() {
		if r := recover(); r != nil {
			fmt.Println("PANIC:", r)
		}
	}()
	s := solver.New(solver.ParseSliceNb([][]int{{2}, {-1, 3}}, 3))
	s.AppendClause(solver.NewClause(lits(1, 1, 1)))
	st := s.Solve()
	fmt.Println("after (1 1 1):", st, s.Model(), "(x1 must be true, hence x3)")
	s2 := solver.New(solver.ParseSliceNb([][]int{{1, 2}}, 2))
	s2.AppendClause(solver.NewCardClause(lits(1, -1, 2), 2)) // x1 + not x1 + x2 >= 2, i.e. x2
	fmt.Println("after x1 + ~x1 + x2 >= 2:", s2.Solve(), s2.Model(), "(x2 must be true)")
}
