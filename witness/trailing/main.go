// Observation (not one of D5/D15/D17): a missing operand after ';' at the end of the input is accepted.
package main

import (
	"fmt"
	"strings"

	"github.com/crillab/gophersat/bf"
)

func main() {
	for _, s := range []string{"a ;", "a ; b ;", "a &", "a |", "a =", "a ->", "(a ;)", "a ; ; b", "a b", "(a", "a)", "", ";"} {
		f, err := bf.Parse(strings.NewReader(s))
		fmt.Printf("%-10q -> formula=%v err=%v\n", s, f, err)
	}
}
