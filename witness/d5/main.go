// Witness for D5: the empty conjunction is true, the empty disjunction is false (Eval agrees), but Solve says the opposite.
package main

import (
	"fmt"
	"os"

	"github.com/crillab/gophersat/bf"
)

func main() {
	fail := false
	check := func(name string, f bf.Formula, wantSat bool) {
		m := bf.Solve(f)
		ok := (m != nil) == wantSat
		if !ok {
			fail = true
		}
		fmt.Printf("%-40s Eval(all-false)=%v  Solve sat=%v  want sat=%v  %s\n", name, f.Eval(map[string]bool{"x": false}), m != nil, wantSat, map[bool]string{true: "ok", false: "WRONG"}[ok])
	}
	x := bf.Var("x")
	check("And()", bf.And(), true)
	check("Or()", bf.Or(), false)
	check("And(And())", bf.And(bf.And()), true)
	check("Or(x, Not(And()))  [= x | false]", bf.And(bf.Not(x), bf.Or(x, bf.Not(bf.And()))), false)
	check("And(x, Or()) [= x & false]", bf.And(x, bf.Or()), false)
	check("Or(x, And()) & ^x [= true]", bf.And(bf.Not(x), bf.Or(x, bf.And())), true)
	check("And(True, True)", bf.And(bf.True, bf.True), true)
	check("Or(False, False)", bf.Or(bf.False, bf.False), false)
	if fail {
		fmt.Println("D5 PRESENT")
		os.Exit(1)
	}
	fmt.Println("D5 absent")
}
