package main

import (
	"fmt"

	"github.com/crillab/gophersat/solver"
)

func main() {
	s := solver.New(solver.ParseSlice([][]int{{1, 2}, {-1, 2}}))
	fmt.Println(s.Solve())
	cl := [][]int{{3, 4, 5}, {-3, 4, 6}, {3, -4, -6}, {-3, -4, 5}, {-5, 6, 3}, {5, -6, -4}, {-3, -5, -6}, {3, 5, 6}, {4, -5, -6}}
	for _, c := range cl {
		lits := make([]solver.Lit, len(c))
		for i, v := range c {
			lits[i] = solver.IntToLit(int32(v))
		}
		s.AppendClause(solver.NewClause(lits))
	}
	fmt.Println(s.Solve())
}
