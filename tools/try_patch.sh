#!/bin/bash
# usage: try_patch.sh <patch.diff> [property ids...]
# Applies the patch in a scratch worktree of /repo HEAD (never to /repo itself), runs the quick checks of the given
# properties (default: all claimed) against it with evidence redirected to a scratch directory, prints the reports.
PATCH="$1"; shift
TAG=$$
WT=/tmp/trypatch/wt.$TAG; VD=/tmp/trypatch/verif.$TAG
mkdir -p /tmp/trypatch "$VD/evidence"
git -C /repo worktree add -q --detach "$WT" HEAD || exit 2
cleanup() { git -C /repo worktree remove --force "$WT" 2>/dev/null; rm -rf "$VD"; }
trap cleanup EXIT
( cd "$WT" && git apply "$PATCH" ) || { echo "patch does not apply"; exit 2; }
ln -s /verif/sa "$VD/sa"; ln -s /verif/known_findings.txt "$VD/known_findings.txt"
IDS="$*"
[ -z "$IDS" ] && IDS=$(python3 -c "import json;print(' '.join(c['property_id'] for c in json.load(open('/verif/MANIFEST.json'))['checks']))")
export GOFLAGS=-mod=mod GOPROXY=off GOSUMDB=off GOTOOLCHAIN=local GOWORK=off
for id in $IDS; do
  out=$(${GSVERIF_BIN:-/verif/bin/gsverif} -property $id -tier quick -repo "$WT" -verif "$VD" 2>&1); code=$?
  echo "== $id exit=$code"
  echo "$out" | grep -E "^(violated|undecided|CHECKER)" | cut -c1-400 | head -5
done
