#!/bin/sh
# usage: try_mutant.sh <patch.diff> [property ids...]
# Applies a patch to /repo, runs the quick checks of the given properties (default: all claimed), reverts the patch.
# Prints one line per property: <id> exit=<code> and the first VIOLATION / violated lines.
PATCH="$1"; shift
cd /repo || exit 2
if ! git diff --quiet; then echo "/repo has uncommitted changes"; exit 2; fi
git apply "$PATCH" || { echo "patch does not apply"; exit 2; }
IDS="$*"
[ -z "$IDS" ] && IDS=$(python3 -c "import json;print(' '.join(c['property_id'] for c in json.load(open('/verif/MANIFEST.json'))['checks']))")
for id in $IDS; do
  out=$(/verif/check.sh $id quick 2>&1); code=$?
  echo "== $id exit=$code"
  echo "$out" | grep -E "^(violated|undecided|CHECKER)" | cut -c1-400 | head -5
done
git -C /repo checkout -- . 
git -C /repo status --short | head -3
