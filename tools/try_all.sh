#!/bin/bash
# usage: try_all.sh <patch.diff>
# Applies the patch in a scratch worktree of /repo HEAD and runs every rule of every property once on it
# (gsverif -all: one load, no evidence written). Prints the reports that are not open known findings; exit 0 = silent.
PATCH="$1"
TAG=$$
WT=/tmp/trypatch/wa.$TAG
mkdir -p /tmp/trypatch
git -C /repo worktree add -q --detach "$WT" HEAD || exit 2
cleanup() { git -C /repo worktree remove --force "$WT" 2>/dev/null; }
trap cleanup EXIT
( cd "$WT" && git apply "$PATCH" ) || { echo "patch does not apply"; exit 2; }
export GOFLAGS=-mod=mod GOPROXY=off GOSUMDB=off GOTOOLCHAIN=local GOWORK=off
${GSVERIF_BIN:-/verif/bin/gsverif} -all -repo "$WT" -verif /verif 2>&1 | sed "s|$WT/||g"
exit ${PIPESTATUS[0]}
