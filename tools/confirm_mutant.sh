#!/bin/bash
# usage: confirm_mutant.sh <mutant dir with patch.diff + demo_test.go|demo/> 
# Confirms in a scratch worktree: patch applies, library builds, existing tests pass with the patch,
# the demonstration fails with the patch and passes without it. Prints a JSON summary line.
D="$1"; NAME=$(echo "$D" | tr '/' '_')
export GOFLAGS=-mod=mod GOPROXY=off GOSUMDB=off GOTOOLCHAIN=local
WT=/tmp/confirm/$NAME
rm -rf "$WT"; mkdir -p /tmp/confirm
git -C /repo worktree add -q --detach "$WT" HEAD || exit 2
cleanup() { git -C /repo worktree remove --force "$WT" 2>/dev/null; }
trap cleanup EXIT
cd "$WT"
git apply "$D/patch.diff" || { echo "{\"mutant\":\"$D\",\"applies\":false}"; exit 1; }
BUILD=ok; go build ./... >/dev/null 2>&1 || BUILD=fail
TESTS=pass; go test -vet=off -count=1 ./... >/tmp/confirm/$NAME.tests.log 2>&1 || TESTS=fail
rundemo() {
  if [ -f "$D/demo_test.go" ]; then
    PKG=$(grep -m1 '^package ' "$D/demo_test.go" | awk '{print $2}' | sed 's/_test$//')
    [ "$PKG" = main ] && PKG=.
    cp "$D/demo_test.go" "$WT/$PKG/zz_demo_test.go"
    RACE=""; grep -qi 'race' "$D/demo_test.go" && RACE="-race"
    TN=$(grep -oE 'func (Test[A-Za-z0-9_]+)' "$D/demo_test.go" | awk '{print $2}' | paste -sd'|')
    (cd "$WT" && timeout 900 go test $RACE -vet=off -count=1 -run "^($TN)\$" ./$PKG/ >/tmp/confirm/$NAME.demo.$1.log 2>&1); rc=$?
    rm -f "$WT/$PKG/zz_demo_test.go"
    return $rc
  elif [ -d "$D/demo" ]; then
    rm -rf /tmp/confirm/$NAME.demo; cp -r "$D/demo" /tmp/confirm/$NAME.demo
    (cd /tmp/confirm/$NAME.demo && sed -i "s#=> .*#=> $WT#" go.mod && cp "$WT/go.sum" . 2>/dev/null; RACE=""; grep -qi 'race' main.go && RACE="-race"; timeout 900 go run $RACE . >/tmp/confirm/$NAME.demo.$1.log 2>&1); rc=$?
    return $rc
  fi
  return 99
}
rundemo with; WITH=$?
git checkout -q -- .
rundemo without; WITHOUT=$?
echo "{\"mutant\":\"$D\",\"applies\":true,\"build\":\"$BUILD\",\"existing_tests\":\"$TESTS\",\"demo_exit_with_patch\":$WITH,\"demo_exit_without_patch\":$WITHOUT}"
