#!/bin/bash
# usage: refactor_all.sh [name...]
# Applies every behaviour-preserving refactoring kept under /verif/refactorings/<name>/patch.diff to a scratch
# worktree of /repo HEAD and runs every rule of every property on it (tools/try_all.sh): nothing may be reported.
# Prints one line per patch; exit 1 when a refactoring raises an alarm or no longer applies.
cd /verif/refactorings || exit 2
NAMES="$*"; [ -z "$NAMES" ] && NAMES=$(ls)
run_one() {
  name=$1
  out=$(/verif/tools/try_all.sh /verif/refactorings/$name/patch.diff 2>&1); code=$?
  if [ $code -ne 0 ]; then
    echo "ALARM $name: $(echo "$out" | grep -E "^(violated|undecided|CHECKER|patch)" | head -3 | cut -c1-220 | tr '\n' '|')"
  else
    echo "silent $name"
  fi
}
export -f run_one
echo $NAMES | tr ' ' '\n' | xargs -P 8 -I{} bash -c 'run_one {}' | sort > /tmp/refactor_all.out
cat /tmp/refactor_all.out
! grep -q "^ALARM" /tmp/refactor_all.out
