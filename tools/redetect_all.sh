#!/bin/bash
# Re-runs every rule against every adopted mutant (scratch worktrees, tools/detect.py) and rewrites the detected_by /
# own_property_check_exit entries of seeded/<name>/meta.json. Prints one summary line per mutant.
one() {
  d=$1; name=$(basename $d); prop=$(echo $name | cut -d- -f1)
  DET=$(/verif/tools/detect.py $d/patch.diff)
  python3 - "$d/meta.json" "$prop" "$DET" "$name" <<'PY'
import json,sys
path,prop,det,name=sys.argv[1:5]
m=json.load(open(path))
by=json.loads(det or "{}")
m["detected_by"]=by
m["own_property_check_exit"]=by.get(prop,{}).get("exit",0)
json.dump(m,open(path,"w"),indent=1)
print(name,"own:",m["own_property_check_exit"],"by:",sorted(by))
PY
}
export -f one
ls -d /verif/seeded/*/ | xargs -P 8 -I{} bash -c 'one {}' | sort
