#!/bin/bash
# Re-runs every claimed quick check against every adopted mutant (scratch worktrees) and rewrites the detected_by /
# own_property_check_exit entries of seeded/<name>/meta.json. Prints one summary line per mutant.
for d in /verif/seeded/*/; do
  name=$(basename $d); prop=$(echo $name | cut -d- -f1)
  DET=$(/verif/tools/try_patch.sh $d/patch.diff 2>&1)
  python3 - "$d/meta.json" "$prop" <<PY
import json,sys,re
path,prop=sys.argv[1:3]
m=json.load(open(path))
det="""$DET"""
by={}; cur=None
for line in det.splitlines():
    mm=re.match(r"== (C\d+) exit=(\d+)",line)
    if mm: cur=mm.group(1); by[cur]={"exit":int(mm.group(2)),"reports":[]}
    elif cur and line.startswith(("violated","undecided")): by[cur]["reports"].append(re.sub(r"/tmp/trypatch/wt\.\d+/","",line)[:300])
m["detected_by"]={k:v for k,v in by.items() if v["exit"]!=0}
m["own_property_check_exit"]=by.get(prop,{}).get("exit")
json.dump(m,open(path,"w"),indent=1)
print("$name","own:",m["own_property_check_exit"],"by:",sorted(m["detected_by"]))
PY
done
