#!/bin/bash
# usage: adopt_mutant.sh <source dir (patch.diff, demo, meta.json)> <name, e.g. C09-m1>
# Confirms the mutant in a scratch worktree, records which quick checks report it, and keeps it under /verif/seeded/<name>/.
SRC="$1"; NAME="$2"; PROP=$(echo "$NAME" | cut -d- -f1)
OUT=/verif/seeded/$NAME
CONF=$(/verif/tools/confirm_mutant.sh "$SRC" | tail -1)
echo "$CONF"
echo "$CONF" | grep -q '"build":"ok","existing_tests":"pass"' || { echo "NOT CONFIRMED (build/tests)"; exit 1; }
echo "$CONF" | grep -q '"demo_exit_without_patch":0' || { echo "NOT CONFIRMED (demo fails on the clean tree)"; exit 1; }
echo "$CONF" | grep -q '"demo_exit_with_patch":0' && { echo "NOT CONFIRMED (demo passes with the patch)"; exit 1; }
mkdir -p "$OUT"
cp "$SRC/patch.diff" "$OUT/"
[ -f "$SRC/demo_test.go" ] && cp "$SRC/demo_test.go" "$OUT/demo_test.go.txt"
[ -d "$SRC/demo" ] && cp -r "$SRC/demo" "$OUT/demo"
DET=$(/verif/tools/try_patch.sh "$SRC/patch.diff" 2>&1)
python3 - "$SRC/meta.json" "$OUT/meta.json" "$CONF" "$PROP" <<PY
import json,sys,re
src,out,conf,prop=sys.argv[1:5]
try: m=json.load(open(src))
except Exception: m={}
det="""$DET"""
by={}
cur=None
for line in det.splitlines():
    mm=re.match(r"== (C\d+) exit=(\d+)",line)
    if mm: cur=mm.group(1); by[cur]={"exit":int(mm.group(2)),"reports":[]}
    elif cur and line.startswith(("violated","undecided")): by[cur]["reports"].append(line[:300])
meta={"property":prop,"summary":m.get("summary"),"breaks":m.get("breaks"),"needs":m.get("needs"),"files":m.get("files"),
 "author_ran":m.get("ran"),"confirmed":json.loads(conf),
 "confirmed_how":"tools/confirm_mutant.sh: scratch worktree of /repo HEAD; go build ./...; go test -vet=off -count=1 ./... with the patch; demonstration run with the patch (must fail) and without it (must pass)",
 "detected_by":{k:v for k,v in by.items() if v["exit"]!=0},
 "own_property_check_exit":by.get(prop,{}).get("exit")}
json.dump(meta,open(out,"w"),indent=1)
print("detected by:",[k for k,v in by.items() if v["exit"]!=0])
PY
