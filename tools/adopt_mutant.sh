#!/bin/bash
# usage: adopt_mutant.sh <source dir (patch.diff, demo, meta.json)> <name, e.g. C09-m1>
# Confirms the mutant in a scratch worktree, records which quick checks report it, and keeps it under /verif/seeded/<name>/.
SRC="$1"; NAME="$2"; PROP=$(echo "$NAME" | cut -d- -f1)
OUT=/verif/seeded/$NAME
CONF=$(/verif/tools/confirm_mutant.sh "$SRC" | tail -1)
echo "$CONF"
echo "$CONF" | grep -q '"build":"ok","existing_tests":"pass"' || { echo "NOT CONFIRMED (build/tests)"; exit 1; }
echo "$CONF" | grep -q '"demo_exit_without_patch":0' || { echo "NOT CONFIRMED (demo fails on the clean tree)"; exit 1; }
echo "$CONF" | grep -q '"demo_exit_with_patch":0' && { echo "NOT CONFIRMED (demo passes with the patch)"; exit 1; }
mkdir -p "$OUT"
cp "$SRC/patch.diff" "$OUT/"
[ -f "$SRC/demo_test.go" ] && cp "$SRC/demo_test.go" "$OUT/demo_test.go.txt"
[ -d "$SRC/demo" ] && cp -r "$SRC/demo" "$OUT/demo"
DET=$(/verif/tools/detect.py "$SRC/patch.diff")
python3 - "$SRC/meta.json" "$OUT/meta.json" "$CONF" "$PROP" "$DET" <<'PY'
import json,sys
src,out,conf,prop,det=sys.argv[1:6]
try: m=json.load(open(src))
except Exception: m={}
by=json.loads(det or "{}")
meta={"property":prop,"summary":m.get("summary"),"breaks":m.get("breaks"),"needs":m.get("needs"),"files":m.get("files"),
 "author_ran":m.get("ran"),"confirmed":json.loads(conf),
 "confirmed_how":"tools/confirm_mutant.sh: scratch worktree of /repo HEAD; go build ./...; go test -vet=off -count=1 ./... with the patch; demonstration run with the patch (must fail) and without it (must pass)",
 "detected_by":by,
 "own_property_check_exit":by.get(prop,{}).get("exit",0)}
json.dump(meta,open(out,"w"),indent=1)
print("detected by:",sorted(by))
PY
