#!/usr/bin/env python3
# usage: detect.py <patch.diff>
# Runs every rule once on a scratch worktree with the patch applied (tools/try_all.sh, gsverif -all) and prints, as
# JSON, which properties' quick checks report it: {"C09": {"exit": 1, "reports": [...]}, ...}. A property's check
# reports the patch exactly when one of the rules in its list does (same rules, same default configuration).
import json, re, subprocess, sys
out = subprocess.run(["/verif/tools/try_all.sh", sys.argv[1]], capture_output=True, text=True).stdout
by = {}
for line in out.splitlines():
    m = re.match(r"(violated |undecided)\s+(\S+)\s+(.*?)\s+\[[^\]]*\] props=(\S*) (.*)", line)
    if not m:
        continue
    for p in m.group(4).split(","):
        if p:
            by.setdefault(p, {"exit": 1, "reports": []})["reports"].append((m.group(1).strip() + " " + m.group(2) + "  " + m.group(3) + "  " + m.group(5))[:300])
print(json.dumps(by))
